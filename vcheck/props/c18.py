"""C18 — resuming from a backup continues the same simulation.

Model-level theorems: Props/C18.lean (resume_eq for every interruption point, given restore∘backup = id; any number of
interruptions in a row; the backups `run(backup_path, backup_freq)` writes are exactly the worlds at the step boundaries
and writing them does not disturb the run; resuming through run / run_until; one engine step is a function of the world alone).
Tie: for generated programs (those of C01; components imported from vcheck/components.py so that they unpickle in
another process) and EVERY step boundary n: the backup of boundary n – written by `write_backup` on an engine context, by
`write_backup` on an InteractiveContext, or by the engine's own `run(backup_path, backup_freq)` loop (one process writes
all of them and carries on: its own run must not be disturbed; plus simulated crashes) – is restored with `dill.load` in
a FRESH process under a different PYTHONHASHSEED and global-RNG state, possibly after other simulations have run in that
process, and continued to the configured end through step / run / take_steps / run_until; one boundary per program is
interrupted a SECOND time (restore, a few steps, backup, restore in a third process). The per-step digests of the state
table and of the results so far and the final results must equal the uninterrupted run; the event skeleton of every
resumed run is compared with the model's (Driver/C01.lean: steps, backup, lost partial step, restore, drive).

WHOLE stream (case kind "whole"): for a WHOLE configuration (`vcheck/props/whole.py`; the exact probe components of
`vcheck/wholekit.py`, module-level classes that unpickle in any process) and EVERY step boundary n: process A steps n
times and writes the backup - `write_backup` on an engine context, `write_backup` on an InteractiveContext, or the engine's
own `run(backup_path, backup_freq)` loop (one process per source writes the backups of all boundaries and carries on) -,
process B (fresh, another PYTHONHASHSEED, global-RNG noise, possibly after / interleaved with simulations of OTHER WHOLE
configurations: sibling scenarios with the same seed and stream names) restores it with `dill.load` and continues to the
end through `step()` / `take_steps(1)` / `run()`; one boundary is interrupted a second time (third process). The state
table, the clock, the index-map positions, the results and the pipeline values after the restore and after EVERY later
step are compared CELL BY CELL with what ONE Lean function computes from the configuration alone (`Model/Whole.lean`,
`Model/WholeDt.lean`; `Driver/Whole.lean` via `driver_of`; `Whole.compare`, unchanged, stage by stage) and - the oracle, the
property itself - with the uninterrupted run (`whole-resume-differs`, `whole-backup-perturbs-run`). The model side of
"resuming continues the same simulation" for this composed model is audited with this check (`lean_modules`):
`Viv.Props.Whole.resume_at_any_boundary` (`iter (n+m) s = (iter n s).bind (iter m)`: table, index map, clock, results,
errors included), `results_resume` (the results after n+m steps = the results after n run over the events of the last m)
and `Viv.Props.WholeDt.resumeD` (per-simulant clocks).
"""
from __future__ import annotations

import os
import random
import shutil
import tempfile

from .. import enginekit
from .. import whole_worker as ww
from ..runner import Prop

SOURCES = ["wb", "ib", "rb"]     # write_backup on an engine context / on an InteractiveContext / run(backup_path, backup_freq)
SPEC_MODES = ["services", "hash", "api", "crn", "results", "mixed", "tiny"]


def _cpython(err, trace):
    """CPython's pickler asserts when two EMPTY buffers share an id (protocol 5, empty numpy arrays of an empty
    population): an interpreter defect, not vivarium's; the boundary is skipped and counted in the tags"""
    return bool(err and err.startswith("AssertionError") and "in memoize" in (trace or "") and "pickle.py" in (trace or ""))


class C18(Prop):
    id = "C18"
    lean_modules = ["VivModel.Props.C18", "VivModel.Props.C01Src", "VivModel.Props.Whole", "VivModel.Props.WholeDt"]
    build_targets = ["VivModel.Model.Engine", "VivModel.Model.Events", "VivModel.Model.Proto", "VivModel.Model.Whole", "VivModel.Model.WholeDt"]
    driver = "C01"
    extra_drivers = ["Whole"]        # the cases of kind "whole" are interpreted by the composed model's driver
    n_spec_quick = 7                 # generated programs of the engine stream (unchanged) ...
    n_spec_thorough = 60
    technique = "Lean 4 proof (iter_add / resume_eq / resume_chain_eq for every interruption point) + backup/restore differential at every step boundary in fresh processes"
    partial = ("fidelity of dill on the live object graph (closures over clocks, re-bound constrained methods, cached graphs, logging handles) "
               "is runtime behaviour; it is explored at every step boundary of every generated program, not proved")
    n_quick = 7 + 4                  # ... followed by the WHOLE stream's configurations
    n_thorough = 60 + 20
    workers = 3
    case_timeout = 1200
    rule = ("each case = one generated program (as C01); for EVERY step boundary n (0..N) a backup written by write_backup (engine and "
            "interactive contexts) or by run(backup_path, backup_freq) is resumed with dill.load in a fresh process under another hash seed "
            "through step / run / take_steps / run_until, one boundary is interrupted twice; evaluations counts programs; "
            "non-trivial = at least 2 boundaries and digests that change between steps; WHOLE stream: one WHOLE configuration, every boundary "
            "backed up by three sources and resumed in a fresh process, every stage compared cell by cell with the composed Lean model")

    def boundary(self):
        full = {"clock": "datetime", "step": 10, "n_steps": 3, "pop": 12, "seed": 7, "crn_keys": 2, "map_size": 10000,
                "births": [2, 0, 1], "mort": {"mods": 1}, "disease": {"states": 3, "p": [5, 8], "self": True},
                "stepmod": {"every": 3, "mult": 2}, "obs": {"strats": 3, "concat": True, "values": 5}, "extras": {"pafs": [0.25, 0.5]}}
        vary = dict(full, step=1, n_steps=6, pop=6, births=[1, 0], disease=None, obs=None, stepmod={"every": 2, "mult": 3, "vary": True})
        # everything that lives OUTSIDE the state table and must ride along in the backup: an activated triggered transition, a
        # transient state, a stateful to_observe, private per-simulant state, a stream not used before the interruption,
        # handles of other components, configuration-built tables, int CRN keys with births after the restore
        state = {"clock": "simple", "step": 2, "n_steps": 4, "pop": 8, "seed": 21, "crn_keys": 3, "uid_kind": "int", "map_size": 997,
                 "births": [2, 1], "birth_phase": "time_step__cleanup", "newborn": {"age0": 8}, "perm": True,
                 "pop_extra": {"dist": "scipy", "p2d": True, "residual": "local"},
                 "mort": {"mods": 3, "scale": 8, "form": "prob", "kinds": ["lambda", "partial", "object"]},
                 "disease": {"states": 4, "p": [5, 8], "self": True, "back": True, "excess": True, "trig": {"at": 1, "every": 2}, "transient": True},
                 "stepmod": None,
                 "obs": {"strats": 3, "when": "time_step", "concat": True, "defaults": ["sex"], "values": 3, "rich": True, "report": True},
                 "extras": {"pafs": [0.25], "cat": True, "tables": True, "ds": "name", "art": None, "late": 2, "private": True, "foreign": True},
                 "order": [5, 1]}
        # the same with enough simulants and steps that an activated triggered transition certainly FIRES after a boundary (with
        # 8 simulants and 4 steps none did: a backup that dropped the active index went unnoticed - mutant
        # break-transition-getstate-drops-active-index)
        state2 = dict(state, pop=24, n_steps=5, disease=dict(state["disease"], trig={"at": 0, "every": 2}))
        # per-simulant clocks in which the earliest pending next-event time belongs to UNTRACKED simulants only (every tracked
        # simulant asks for the long step): whatever recomputes the global step on resumption must look at everybody
        living = dict(full, n_steps=9, pop=30, stepmod={"every": 1, "mult": 3, "living": True}, mort={"mods": 1, "scale": 160},
                      extras=None)        # no Extras component: it would park the untracked simulants at the end
        # WHOLE stream: age column, interpolated table + pipeline with three modifiers, observer with a stateful log, key columns
        from . import whole
        return [{"spec": full, "hs_save": 1, "hs_resume": 2, "noise": 5, "plan": 1},
                {"spec": vary, "hs_save": 0, "hs_resume": 3, "noise": 9, "plan": 2},
                {"spec": state, "hs_save": "random", "hs_resume": "random", "noise": 13, "plan": 3},
                {"spec": state2, "hs_save": "random", "hs_resume": "random", "noise": 13, "plan": 3},
                {"spec": living, "hs_save": 1, "hs_resume": 2, "noise": 7, "plan": 4, "thorough": True},
                {"kind": "whole", "cfg": whole.ext_boundary()[-1], "hs_save": 1, "hs_resume": "random", "noise": 4, "plan": 5}]

    def generate(self, rng: random.Random, i: int, tier: str):
        # the engine stream first (its random stream is what it was before the WHOLE stream existed), then the WHOLE
        # stream; in a search for a failing input (i >= 10000) every third case is a WHOLE case
        n_spec = self.n_spec_thorough if tier == "thorough" else self.n_spec_quick
        if (i >= n_spec and i < 10_000) or (i >= 10_000 and i % 3 == 2):
            cfg = ww.gen_cfg(rng, tier, flavour=i - n_spec + 1 if i < 10_000 else i // 3, max_stages=8 if tier == "thorough" else 5)
            return {"kind": "whole", "cfg": cfg, "hs_save": rng.choice([0, 1, "random"]), "hs_resume": rng.choice([2, 3, "random"]),
                    "noise": rng.randint(0, 10_000), "thorough": tier == "thorough", "plan": rng.randint(0, 10 ** 6)}
        spec = enginekit.gen_spec(rng, small=(tier == "quick"), mode=SPEC_MODES[i % len(SPEC_MODES)])
        return {"spec": spec, "hs_save": rng.choice([0, 1, "random"]), "hs_resume": rng.choice([2, 3, "random"]),
                "noise": rng.randint(0, 10_000), "thorough": tier == "thorough", "plan": rng.randint(0, 10 ** 6)}

    def shrink(self, case):
        if case.get("kind") == "whole":
            from . import whole
            for c in whole.PROP.shrink(case["cfg"]):
                if whole.crn_safe(c):
                    yield dict(case, cfg=c)
            return
        s = case["spec"]
        for k in ("obs", "disease", "mort", "stepmod", "extras", "pop_extra", "newborn"):
            if s.get(k):
                yield dict(case, spec=dict(s, **{k: None}))
        if s["n_steps"] > 1:
            yield dict(case, spec=dict(s, n_steps=s["n_steps"] - 1))

    # ------------------------------------------------------------------ the plan of one case (a function of the case alone)
    def _plan(self, case, nsteps):
        rng = random.Random(f"plan:{case.get('plan', 0)}")
        spec = case["spec"]
        srcs = [s for s in SOURCES if not (s == "rb" and spec["pop"] == 0)]
        bounds = []
        for n in range(nsteps + 1):
            use = srcs if case.get("thorough") else [srcs[(n + case.get("plan", 0)) % len(srcs)]]
            for src in use:
                bounds.append({"n": n, "src": src, "mode": rng.choice(["step", "run", "take", "until"]),
                               "prior": rng.choice([[], [], [], ["rich"], ["empty", "rich"], ["interleaved"]]), "peek": rng.random() < 0.3})
        crash = sorted({0, max(0, nsteps - 1)}) if not case.get("thorough") else list(range(nsteps))
        chain = None
        if nsteps >= 2:
            n1 = rng.randint(0, nsteps - 2)
            chain = {"n": n1, "src": rng.choice(srcs), "after": rng.randint(1, nsteps - 1 - n1), "mode": rng.choice(["step", "run", "until"])}
        return {"bounds": bounds, "crash": [n for n in crash if n < nsteps or n == 0], "chain": chain, "sources": srcs}

    def run_impl(self, case):
        if case.get("kind") == "whole":
            return self._whole_run(case)
        from .. import components
        spec = dict(case["spec"])
        d = tempfile.mkdtemp(prefix="vc18-")
        try:
            if (spec.get("extras") or {}).get("art"):
                spec["artifact_path"] = components.write_artifact(os.path.join(d, "artifact.hdf"))
            # round 1: the uninterrupted run, the processes that write the backups of every boundary, the simulated crashes
            ctx = {"wb": "engine", "ib": "interactive", "rb": "engine"}
            sources = self._plan(case, 0)["sources"]
            savers = [({"spec": spec, "mode": "step", "noise": case["noise"], "prior": ["rich"],
                        "save_all": {"dir": d, "prefix": s, "ctx": ctx[s], "how": "run_backup" if s == "rb" else "write_backup"}}, case["hs_save"])
                      for s in sources]
            # the engine's own backup path with a simulated crash (run(backup_path, backup_freq) + exception in the next step);
            # the crash points come from the CONFIGURED number of steps (per-simulant clocks: the first boundaries)
            cfg_n = components.expected_steps(spec)
            crash_ns = self._plan(case, cfg_n if cfg_n is not None else 2)["crash"]
            crashes = [({"spec": spec, "mode": "step", "noise": case["noise"] + 2, "prior": [], "crash_at": n,
                         "save_path": os.path.join(d, f"crash{n}.pkl")}, case["hs_save"]) for n in crash_ns]
            r1 = enginekit.run_workers([({"spec": spec, "mode": "step", "noise": 0, "prior": []}, 0)] + savers + crashes, parallel=8)
            full, sres, cres = r1[0], r1[1:1 + len(savers)], r1[1 + len(savers):]
            if full.get("error"):
                return {"full": {"error": full["error"], "trace": full.get("trace", "")[-400:]}, "resumed": [], "savers": []}
            nsteps = sum(1 for x in full["digests"] if x.startswith("metrics:"))
            plan = self._plan(case, nsteps)
            resumes = [({"spec": spec, "noise": case["noise"] + 1 + k, "resume_path": os.path.join(d, f"{b['src']}{b['n']}.pkl"),
                         "resume_mode": b["mode"], "prior": b["prior"], "peek": b["peek"]}, case["hs_resume"]) for k, b in enumerate(plan["bounds"])]
            cresumes = [({"spec": spec, "noise": case["noise"] + 3, "resume_path": j["save_path"], "resume_mode": "run", "prior": []}, case["hs_resume"])
                        for j, _ in crashes]
            ch = plan["chain"]
            leg1 = [({"spec": spec, "noise": case["noise"] + 7, "resume_path": os.path.join(d, f"{ch['src']}{ch['n']}.pkl"), "prior": [],
                      "then_save": {"after": ch["after"], "path": os.path.join(d, "chain.pkl")}}, case["hs_resume"])] if ch else []
            r2 = enginekit.run_workers(resumes + cresumes + leg1, parallel=10)
            rres, crres, l1 = r2[:len(resumes)], r2[len(resumes):len(resumes) + len(cresumes)], r2[len(resumes) + len(cresumes):]
            l2 = []
            if ch and not l1[0].get("error"):
                l2 = enginekit.run_workers([({"spec": spec, "noise": case["noise"] + 8, "resume_path": os.path.join(d, "chain.pkl"),
                                              "resume_mode": ch["mode"], "prior": []}, case["hs_save"])], parallel=1)

            def rec(label, n, mode, src, s_err, s_trace, r):
                return {"n": label, "boundary": n, "mode": mode, "src": src, "save_error": s_err, "error": r.get("error") if r else None,
                        "digests": r.get("digests") if r else None, "results": r.get("results") if r else None,
                        "final_table": r.get("final_table") if r else None, "events": r.get("events") if r else None,
                        "save_trace": (s_trace or "")[-600:] if s_err else "", "ctx": r.get("ctx") if r else None,
                        "trace": (r.get("trace") or "")[-600:] if r and r.get("error") else ""}
            out = []
            skipped = {s: set((sr.get("skipped") or [])) for s, sr in zip(plan["sources"], sres)}
            serr = {s: (sr.get("error"), sr.get("trace")) for s, sr in zip(plan["sources"], sres)}
            for (j, _), s_, r in zip(crashes, cres, crres):
                out.append(rec(f"crash@{j['crash_at']}", min(j["crash_at"], nsteps), "run", "crash", s_.get("error"), s_.get("trace"), r))
            for b, r in zip(plan["bounds"], rres):
                e, t = serr[b["src"]]
                if b["n"] in skipped[b["src"]]:
                    e, t = "AssertionError: (cpython) ", "pickle.py in memoize"
                out.append(rec(f"{b['src']}{b['n']}/{b['mode']}" + ("+" + ",".join(b["prior"]) if b["prior"] else ""), b["n"], b["mode"], b["src"], e, t, r))
            if ch:
                e, t = serr[ch["src"]]
                if ch["n"] in skipped[ch["src"]]:
                    e, t = "AssertionError: (cpython) ", "pickle.py in memoize"
                if l1[0].get("error"):
                    out.append(rec(f"chain:{ch['src']}{ch['n']}+{ch['after']} (second backup)", ch["n"], ch["mode"], ch["src"], e, t, l1[0]))
                else:
                    out.append(rec(f"chain:{ch['src']}{ch['n']}+{ch['after']}/{ch['mode']}", ch["n"] + ch["after"], ch["mode"], ch["src"], e, t, l2[0]))
            sv = [{"src": s, "error": sr.get("error"), "trace": (sr.get("trace") or "")[-600:] if sr.get("error") else "", "digests": sr.get("digests"),
                   "results": sr.get("results"), "boundaries": sr.get("boundaries"), "skipped": sorted(sr.get("skipped") or [])}
                  for s, sr in zip(plan["sources"], sres)]
            return {"full": {"error": None, "digests": full["digests"], "results": full["results"], "final_table": full["final_table"],
                             "events": full["events"]}, "nsteps": nsteps, "resumed": out, "savers": sv}
        finally:
            shutil.rmtree(d, ignore_errors=True)

    # ------------------------------------------------------------------ model side: every resumed run
    def _skeleton_prefix(self, spec, ev):
        from .c01 import C01
        start, step, stop = C01._ticks(spec)
        sched, init = [], "n"
        if spec.get("stepmod"):
            prep = [e for e in ev if e[0] in ("prepare", "end")]
            mets = [e for e in ev if e[0] == "metrics"]
            if spec["pop"] > 0:
                init = str(prep[0][2])
            for k in range(len(mets)):
                nxt = prep[k + 1][2] if k + 1 < len(prep) else None
                sched.append(str(nxt) if (mets[k][4] > 0 and nxt is not None) else "n")
        return [f"cfg {start} {step} {stop}", "sched " + (",".join(sched) if sched else "-"), f"init {init}"], stop

    def _resume_lines(self, case, obs, r):
        pre, stop = self._skeleton_prefix(case["spec"], obs["full"]["events"])
        interactive = r.get("ctx") == "InteractiveContext"
        drive = {"step": "loop", "take": "loop", "run": f"until {stop}" if interactive else "run", "until": f"until {stop}" if interactive else "run"}[r["mode"]]
        lost = ["steps 1"] if r["src"] == "crash" and r["boundary"] < obs["nsteps"] else []      # the step the crashed process was in
        return pre + [f"steps {r['boundary']}", "backup"] + lost + ["restore", drive, "finalize", "log"]

    def model_lines(self, case, obs):
        if case.get("kind") == "whole":
            from . import whole
            return [] if obs["full"].get("worker_error") else whole.PROP.model_lines(case["cfg"], obs["full"])
        if obs["full"].get("error"):
            return []
        lines = []
        for r in obs["resumed"]:
            if r["error"] or r["save_error"] or not r["events"] or str(r["n"]).startswith("chain"):
                continue
            lines += self._resume_lines(case, obs, r)
        return lines

    def compare(self, case, obs, replies):
        if case.get("kind") == "whole":
            return self._whole_compare(case, obs, replies)
        out, k = [], 0
        tag = {"time_step__prepare": "prepare", "collect_metrics": "metrics", "simulation_end": "end"}
        for r in obs["resumed"]:
            if r["error"] or r["save_error"] or not r["events"] or str(r["n"]).startswith("chain"):
                continue
            n = len(self._resume_lines(case, obs, r))
            blk = replies[k:k + n]
            k += n
            if any(x.startswith(("err", "bad-op")) for x in blk):
                out.append(f"model refuses {r['n']}: {blk}")
                continue
            m = [[tag[a], int(b), int(c)] for a, b, c in (x.split(":") for x in blk[-1].split(",")) if a in tag]
            i = [[e[0], e[1], e[2]] for e in r["events"]]
            if m != i:
                j = next((j for j, (a, b) in enumerate(zip(i, m)) if a != b), min(len(i), len(m)))
                out.append(f"resumed {r['n']}: event skeleton differs at #{j}: impl {i[j] if j < len(i) else None}, model {m[j] if j < len(m) else None}")
        return out

    # ------------------------------------------------------------------ the property on the observed behaviour
    def oracle(self, case, obs):
        if case.get("kind") == "whole":
            return self._whole_oracle(case, obs)
        from .. import components
        f = []
        if obs["full"]["error"]:
            return [{"sig": "run-raised", "msg": obs["full"]["error"] + obs["full"].get("trace", "")}]
        base = obs["full"]
        want = components.expected_steps(case["spec"])
        if want is not None and obs["nsteps"] != want:
            f.append({"sig": "step-count-not-from-configuration", "msg": f"the uninterrupted run took {obs['nsteps']} steps, the configuration gives {want}"})
        for s in obs["savers"]:
            if s["error"]:
                if not _cpython(s["error"], s["trace"]):
                    f.append({"sig": "backup-raised", "msg": f"writing the backups ({s['src']}): {s['error']} {s['trace']}"})
            elif s["digests"] != base["digests"] or s["results"] != base["results"]:
                k = next((k for k, (a, b) in enumerate(zip(s["digests"], base["digests"])) if a != b), min(len(s["digests"]), len(base["digests"])))
                f.append({"sig": "backup-perturbs-run", "msg": f"the run that wrote its backups ({s['src']}) differs from the run that wrote none at digest #{k}: "
                          f"{s['digests'][k] if k < len(s['digests']) else None} != {base['digests'][k] if k < len(base['digests']) else None}"})
            elif s["boundaries"] != obs["nsteps"] + 1:
                f.append({"sig": "backup-count", "msg": f"{s['src']}: {s['boundaries']} boundaries seen, the run has {obs['nsteps'] + 1}"})
        for r in obs["resumed"]:
            if _cpython(r["save_error"], r["save_trace"]):
                continue
            if r["save_error"]:
                if r["src"] == "crash":
                    f.append({"sig": "backup-raised", "msg": f"boundary {r['n']}: {r['save_error']} {r['save_trace']}"})
                continue        # (a saver that failed is reported once, above)
            if _cpython(r["error"], r["trace"]):
                continue        # the SECOND backup of a twice-interrupted run met the same interpreter assertion
            if r["error"]:
                stored = (case["spec"].get("pop_extra") or {}).get("residual") == "stored"     # candidate finding, see notes/agent-reports/C18.md
                f.append({"sig": "residual-choice-sentinel-lost-in-backup" if stored and r["error"].startswith("TypeError") else "resume-raised",
                          "msg": f"boundary {r['n']}: {r['error']} {r['trace']}"})
            elif r["digests"] != base["digests"]:
                k = next((k for k, (a, b) in enumerate(zip(r["digests"], base["digests"])) if a != b), min(len(r["digests"]), len(base["digests"])))
                f.append({"sig": "resumed-state-differs", "msg": f"interrupted after step {r['n']}: digest #{k} "
                          f"{r['digests'][k] if k < len(r['digests']) else None} != {base['digests'][k] if k < len(base['digests']) else None}"})
            elif r["results"] != base["results"] or r["final_table"] != base["final_table"]:
                f.append({"sig": "resumed-results-differ", "msg": f"interrupted after step {r['n']}: results {r['results']} != {base['results']}"})
        return f

    def nontrivial(self, case, obs):
        if case.get("kind") == "whole":
            u = obs["full"]
            return not u.get("worker_error") and obs.get("nsteps", 0) >= 1 and bool(u["steps"][-1]) and any(
                not r["run"].get("worker_error") for r in obs["resumed"])
        d = obs["full"].get("digests") or []
        return obs.get("nsteps", 0) >= 1 and len({x.split(":")[1] for x in d}) >= 2 and case["spec"]["pop"] > 0

    def tags(self, case, obs):
        if case.get("kind") == "whole":
            return self._whole_tags(case, obs)
        s = case["spec"]
        t = ["kind:engine", s["clock"], f"crn{s['crn_keys']}", f"boundaries:{obs.get('nsteps', 0) + 1}"]
        for k in ("mort", "disease", "stepmod", "obs", "extras", "pop_extra", "newborn", "perm"):
            t.append(k if s.get(k) else "no-" + k)
        o, x, d = s.get("obs") or {}, s.get("extras") or {}, s.get("disease") or {}
        t += [f"obs:{k}" for k in ("rich", "values", "defaults") if o.get(k)]
        t += [f"extras:{k}" for k in ("cat", "tables", "ds", "art", "private", "foreign") if x.get(k)] + (["extras:late"] if x.get("late") is not None else [])
        t += [f"disease:{k}" for k in ("excess", "trig", "transient") if d.get(k)]
        for r in obs["resumed"]:
            ok = not r["error"] and not r["save_error"]
            if ok:
                t += ["resumed-ok", f"source:{r['src']}", f"resume-mode:{r['mode']}", f"resumed-as:{r.get('ctx')}"]
                if str(r["n"]).startswith("chain"):
                    t.append("interrupted-twice")
                if "+" in str(r["n"]) and not str(r["n"]).startswith("chain"):
                    t.append("restored-after-other-simulations")
            if _cpython(r["save_error"], r["save_trace"]) or _cpython(r["error"], r["trace"]):
                t.append("skipped:cpython-empty-buffer-pickle-assert")
        t += [f"saver:{sv['src']}" for sv in obs.get("savers", []) if not sv["error"]]
        return t

    def sample_view(self, case, obs):
        if case.get("kind") == "whole":
            from . import whole
            u = obs["full"]
            return {"kind": "whole", "cfg": case["cfg"], "hs_save": case["hs_save"], "hs_resume": case["hs_resume"],
                    "boundaries": obs.get("nsteps", 0) + 1, "resumed": [r["label"] for r in obs.get("resumed", [])][:14],
                    "uninterrupted": {"init": whole.show_table(u.get("init"))[:300], "last": whole.show_table((u.get("steps") or [None])[-1])[:400],
                                      "error": u.get("error"), "clocks": u.get("clocks")}}
        return {"spec": case["spec"], "hs_save": case["hs_save"], "hs_resume": case["hs_resume"], "boundaries": obs.get("nsteps", 0) + 1,
                "resumed": [r["n"] for r in obs.get("resumed", [])][:12],
                "full_digests": (obs["full"].get("digests") or [])[:5], "results": obs["full"].get("results")}

    # ================================================================== WHOLE stream (case kind "whole")
    WSOURCES = {"wb": ("step", "write_backup"), "ib": ("interactive_step", "write_backup"), "rb": ("run_backup", "run_backup")}

    def driver_of(self, case):
        return "Whole" if case.get("kind") == "whole" else self.driver

    def _whole_plan(self, case, nsteps):
        """which source's backup is resumed how at each boundary, after which earlier simulations; the twice-interrupted
        boundary - a function of the case alone"""
        rng = random.Random(f"wplan:{case.get('plan', 0)}")
        cfg = case["cfg"]
        srcs = [s for s in ("wb", "ib", "rb") if not (s == "rb" and cfg["pop"] == 0)]
        sib = ww.sibling(rng, cfg)
        other = ww.gen_cfg(rng, "quick", 0, max_stages=4)
        priors = [[], [], [{"cfg": sib, "style": "finished", "mode": "step"}],
                  [{"cfg": other, "style": "finished", "mode": "run"}, {"cfg": sib, "style": "unfinished", "mode": "step"}],
                  [{"cfg": sib, "style": "interleaved", "mode": "step"}]]
        bounds = []
        for n in range(nsteps + 1):
            use = srcs if case.get("thorough") else [srcs[(n + case.get("plan", 0)) % len(srcs)]]
            for src in use:
                bounds.append({"n": n, "src": src, "mode": rng.choice(["step", "run", "take"]), "prior": rng.choice(priors)})
        chain = None
        if nsteps >= 2:
            n1 = rng.randint(0, nsteps - 2)
            chain = {"n": n1, "src": rng.choice(srcs), "after": rng.randint(1, nsteps - 1 - n1), "mode": rng.choice(["step", "run"])}
        return {"bounds": bounds, "chain": chain, "sources": srcs, "saver_prior": [{"cfg": sib, "style": "finished", "mode": "step"}]}

    @staticmethod
    def _trim(r):
        r.pop("first_hashes", None)
        r["trace"] = (r.get("trace") or "")[-600:]
        return r

    def _whole_run(self, case):
        cfg = case["cfg"]
        d = tempfile.mkdtemp(prefix="vc18w-")
        try:
            plan0 = self._whole_plan(case, 0)
            # round 1: the uninterrupted run (nothing else in the process, no extra component: what ./check WHOLE runs) and one
            # process per source that writes the backup of EVERY boundary and carries on to the end
            savers = [({"cfg": cfg, "mode": self.WSOURCES[s][0], "noise": case["noise"] + k, "probe": True,
                        "prior": plan0["saver_prior"] if k == 1 else [],
                        "save": {"pattern": os.path.join(d, s + "%d.pkl"), "how": self.WSOURCES[s][1]}}, case["hs_save"])
                      for k, s in enumerate(plan0["sources"])]
            r1 = ww.run_jobs([({"cfg": cfg, "mode": "step", "noise": 0, "probe": False, "prior": []}, 0)] + savers, parallel=4)
            full, sres = self._trim(r1[0]), [self._trim(x) for x in r1[1:]]
            out = {"kind": "whole", "full": full, "nsteps": 0, "savers": [{"src": s, "run": x} for s, x in zip(plan0["sources"], sres)], "resumed": []}
            if full.get("worker_error") or full.get("init") is None:
                return out
            nsteps = len(full["steps"])
            out["nsteps"] = nsteps
            plan = self._whole_plan(case, nsteps)
            jobs = [({"cfg": cfg, "noise": case["noise"] + 11 + k, "prior": b["prior"],
                      "resume": {"path": os.path.join(d, f"{b['src']}{b['n']}.pkl"), "at": b["n"], "mode": b["mode"]}}, case["hs_resume"])
                    for k, b in enumerate(plan["bounds"])]
            ch = plan["chain"]
            if ch:
                jobs.append(({"cfg": cfg, "noise": case["noise"] + 7, "prior": [],
                              "resume": {"path": os.path.join(d, f"{ch['src']}{ch['n']}.pkl"), "at": ch["n"], "mode": "step",
                                         "then_save": {"after": ch["after"], "path": os.path.join(d, "chain.pkl")}}}, case["hs_resume"]))
            r2 = ww.run_jobs(jobs, parallel=8)
            for b, r in zip(plan["bounds"], r2):
                out["resumed"].append({"label": f"{b['src']}{b['n']}/{b['mode']}" + ("+" + ",".join(p["style"] for p in b["prior"]) if b["prior"] else ""),
                                       "n": b["n"], "src": b["src"], "mode": b["mode"], "prior": [p["style"] for p in b["prior"]], "run": self._trim(r)})
            if ch:
                l1 = self._trim(r2[-1])
                n2 = ch["n"] + ch["after"]
                lab = f"chain:{ch['src']}{ch['n']}+{ch['after']}"
                if l1.get("worker_error") or not l1.get("stopped"):
                    # the first leg did not get as far as its second backup: reported as a resumed run of its own
                    out["resumed"].append({"label": lab + " (first leg)", "n": ch["n"], "src": ch["src"], "mode": "step", "prior": [], "run": l1, "leg1": True})
                elif n2 in (l1.get("skipped") or []):
                    out["resumed"].append({"label": lab + " (second backup skipped)", "n": n2, "src": ch["src"], "mode": ch["mode"], "prior": [],
                                           "run": {"worker_error": None, "cpython_skip": True}, "chain": True})
                else:
                    l2 = ww.run_jobs([({"cfg": cfg, "noise": case["noise"] + 8, "prior": [],
                                        "resume": {"path": os.path.join(d, "chain.pkl"), "at": n2, "mode": ch["mode"]}}, case["hs_save"])], parallel=1)
                    out["resumed"].append({"label": f"{lab}/{ch['mode']}", "n": n2, "src": ch["src"], "mode": ch["mode"], "prior": [],
                                           "run": self._trim(l2[0]), "chain": True, "leg1_stages": ww.stages_of(l1)})
            return out
        finally:
            shutil.rmtree(d, ignore_errors=True)

    @staticmethod
    def _whole_skipped(obs, r):
        """the backup this resume needed was not written because of CPython's pickler assertion (two empty buffers)"""
        if r["run"].get("cpython_skip"):
            return True
        sv = {s["src"]: s["run"] for s in obs["savers"]}.get(r["src"]) or {}
        return (not r.get("chain")) and r["n"] in (sv.get("skipped") or [])

    def _whole_compare(self, case, obs, replies):
        """`Whole.compare` (unchanged): the uninterrupted run, every saver's own run, and every resumed run - its stages
        n..N placed after the uninterrupted run's stages 0..n-1 - against the ONE model run"""
        from . import whole
        cfg = case["cfg"]
        full = obs["full"]
        if full.get("worker_error"):
            return []

        def cmp(label, o):
            try:
                d = whole.PROP.compare(cfg, o, replies)
            except IndexError:
                d = ["more stages than the model was asked for"]
            return [f"{label}: {x}" for x in d]
        out = cmp("uninterrupted run", ww.whole_obs_of_run(full))
        if out:
            return out
        for s in obs["savers"]:
            if not s["run"].get("worker_error"):
                out += cmp(f"the run that wrote its backups ({s['src']})", ww.whole_obs_of_run(s["run"]))
        pre = ww.stages_of(full)
        for r in obs["resumed"]:
            x = r["run"]
            if x.get("worker_error") or x.get("cpython_skip") or x.get("init") is None and not x.get("error"):
                continue
            st = ww.stages_of(x)
            if x.get("mode") in ww.RUN_LIKE and not r.get("leg1"):
                err = x.get("error")
                o = ww.as_whole_obs(pre[:r["n"]] + st[:1], None, True, x.get("size"), st[-1] if len(st) > 1 else None, err)
            else:
                o = ww.as_whole_obs(pre[:r["n"]] + st, None if x.get("stopped") else x.get("error"), False, x.get("size"))
            out += cmp(f"resumed {r['label']}", o)
        return out

    def _whole_oracle(self, case, obs):
        """the property itself: whatever boundary the run is interrupted at, whoever restores it, it continues as the
        uninterrupted run does - stage by stage: state table, clock, index-map positions, results, pipeline log, clocks"""
        f = []
        full = obs["full"]
        if full.get("worker_error"):
            return [{"sig": "whole-run-raised", "msg": f"{full['worker_error']} {full.get('trace', '')}"}]
        if full.get("error") and str(full["error"]["class"]).startswith("other"):
            return [{"sig": "whole-unexpected-exception", "msg": str(full["error"])}]
        want = set(range(obs["nsteps"] + 1)) if full.get("init") is not None else set()
        for s in obs["savers"]:
            x = s["run"]
            if x.get("worker_error"):
                f.append({"sig": "whole-backup-raised", "msg": f"writing the backups ({s['src']}): {x['worker_error']} {x.get('trace', '')}"})
                continue
            d = ww.diff_runs(full, x)
            if d:
                f.append({"sig": "whole-backup-perturbs-run", "msg": f"the run that wrote its backups ({s['src']}) differs from the run that wrote none: {d}"})
            elif set(x.get("saved") or []) | set(x.get("skipped") or []) != want:
                f.append({"sig": "whole-backup-count", "msg": f"{s['src']}: backups of the boundaries {sorted(x.get('saved') or [])}, the run has {sorted(want)}"})
        bad_saver = {s["src"] for s in obs["savers"] if s["run"].get("worker_error")}
        for r in obs["resumed"]:
            x = r["run"]
            if self._whole_skipped(obs, r) or (r["src"] in bad_saver and not r.get("chain")):
                continue          # (a saver that failed is reported once, above)
            if x.get("worker_error"):
                f.append({"sig": "whole-resume-raised", "msg": f"boundary {r['label']}: {x['worker_error']} {x.get('trace', '')}"})
                continue
            if x.get("stopped"):
                continue
            d = ww.diff_runs(full, x, first=r["n"])
            if d:
                f.append({"sig": "whole-resume-differs", "msg": f"interrupted after step {r['n']} ({r['label']}, restored as {x.get('ctx')}): {d}"})
            elif r.get("leg1_stages") is not None:
                # the first leg of the twice-interrupted run (restore, a few steps, second backup) against the uninterrupted run
                a = ww.stages_of(full)[r["n"] - len(r["leg1_stages"]) + 1: r["n"] + 1]
                if a != r["leg1_stages"]:
                    f.append({"sig": "whole-resume-differs", "msg": f"{r['label']}: the stages between the two interruptions differ from the uninterrupted run"})
        return f

    def _whole_tags(self, case, obs):
        from . import whole
        cfg = case["cfg"]
        t = ["kind:whole", f"whole:boundaries:{obs.get('nsteps', 0) + 1}"]
        for s in obs["savers"]:
            if not s["run"].get("worker_error"):
                t.append("whole:saver:" + s["src"])
        for r in obs["resumed"]:
            x = r["run"]
            if self._whole_skipped(obs, r):
                t.append("whole:skipped:cpython-empty-buffer-pickle-assert")
            elif not x.get("worker_error") and not x.get("stopped"):
                t += ["whole:resumed-ok", f"whole:source:{r['src']}", f"whole:resume-mode:{r['mode']}", f"whole:resumed-as:{x.get('ctx')}"]
                t += [f"whole:restored-after:{p}" for p in r["prior"]]
                if r.get("chain"):
                    t.append("whole:interrupted-twice")
                if r["n"] == 0:
                    t.append("whole:resumed-at-boundary-0")
                if r["n"] == obs.get("nsteps"):
                    t.append("whole:resumed-at-the-end")
                if x.get("error"):
                    t.append("whole:resumed-run-raises-as-the-uninterrupted")
        u = obs["full"]
        if not u.get("worker_error"):
            keep = ("outcome:", "hash-collision:", "block=", "clock:", "keycols:", "ext:", "pipe:called", "obs:results-nonzero", "births:", "untracked:",
                    "machine-moved", "dt:global-step-grew")
            t += ["whole:" + x for x in whole.PROP.tags(cfg, u) if x.startswith(keep)]
        return t


PROP = C18()
