"""C18 — resuming from a backup continues the same simulation.

Model-level theorems: Props/C18.lean (resume_eq for every interruption point, given restore∘backup = id;
one engine step is a function of the world alone).
Tie: for generated programs (those of C01; components imported from vcheck/components.py so that they
unpickle in another process) and EVERY step boundary n: run to n, `write_backup`, restore with
`dill.load` in a FRESH process under a different PYTHONHASHSEED and global-RNG state, continue to the
end; the per-step digests of the state table and the final results must equal the uninterrupted run.
"""
from __future__ import annotations

import os
import random
import shutil
import tempfile

from .. import enginekit
from ..runner import Prop


class C18(Prop):
    id = "C18"
    lean_modules = ["VivModel.Props.C18"]
    build_targets = ["VivModel.Model.Engine", "VivModel.Model.Events", "VivModel.Model.Proto"]
    driver = None
    technique = "Lean 4 proof (iter_add / resume_eq for every interruption point) + backup/restore differential at every step boundary in fresh processes"
    partial = ("fidelity of dill on the live object graph (closures over clocks, re-bound constrained methods, cached graphs, logging handles) "
               "is runtime behaviour; it is explored at every step boundary of every generated program, not proved")
    n_quick = 4
    n_thorough = 60
    workers = 2
    case_timeout = 900
    rule = ("each case = one generated program (as C01); for EVERY step boundary n (0..N) the run is saved with write_backup in one process "
            "and resumed with dill.load in a fresh process under another hash seed; evaluations counts programs; "
            "non-trivial = at least 2 boundaries and digests that change between steps")

    def boundary(self):
        full = {"clock": "datetime", "step": 10, "n_steps": 3, "pop": 12, "seed": 7, "crn_keys": 2, "map_size": 10000,
                "births": [2, 0, 1], "mort": {"mods": 1}, "disease": {"states": 3, "p": [5, 8], "self": True},
                "stepmod": {"every": 3, "mult": 2}, "obs": {"strats": 3, "concat": True, "values": 5}, "extras": {"pafs": [0.25, 0.5]}}
        vary = dict(full, step=1, n_steps=6, pop=6, births=[1, 0], disease=None, obs=None, stepmod={"every": 2, "mult": 3, "vary": True})
        return [{"spec": full, "hs_save": 1, "hs_resume": 2, "noise": 5}, {"spec": vary, "hs_save": 0, "hs_resume": 3, "noise": 9, "interactive_saves": True}]

    def generate(self, rng: random.Random, i: int, tier: str):
        spec = enginekit.gen_spec(rng, small=(tier == "quick"))
        return {"spec": spec, "hs_save": rng.choice([0, 1, "random"]), "hs_resume": rng.choice([2, 3, "random"]),
                "noise": rng.randint(0, 10_000), "all_crash_points": tier == "thorough", "interactive_saves": rng.random() < 0.5}

    def shrink(self, case):
        s = case["spec"]
        for k in ("obs", "disease", "mort", "stepmod", "extras"):
            if s.get(k):
                yield dict(case, spec=dict(s, **{k: None}))
        if s["n_steps"] > 1:
            yield dict(case, spec=dict(s, n_steps=s["n_steps"] - 1))

    def run_impl(self, case):
        spec = case["spec"]
        d = tempfile.mkdtemp(prefix="vc18-")
        try:
            full = enginekit.run_worker({"spec": spec, "mode": "step", "noise": 0, "prior_contexts": 0}, 0)
            if full.get("error"):
                return {"full": {"error": full["error"], "trace": full.get("trace", "")[-400:]}, "resumed": []}
            nsteps = sum(1 for x in full["digests"] if x.startswith("metrics:"))
            saves = [({"spec": spec, "mode": "step", "noise": case["noise"], "prior_contexts": 1, "save_at": n,
                       "save_ctx": "interactive" if (case.get("interactive_saves") and n % 2 == 1) else "engine",
                       "save_path": os.path.join(d, f"bk{n}.pkl")}, case["hs_save"]) for n in range(nsteps + 1)]
            # the engine's own backup path with a simulated crash (run(backup_path, backup_freq) + exception in the next step)
            crash_ns = list(range(nsteps + 1)) if case.get("all_crash_points") else sorted({0, nsteps // 2, nsteps})
            crashes = [({"spec": spec, "mode": "step", "noise": case["noise"] + 2, "prior_contexts": 0, "crash_at": n,
                         "save_path": os.path.join(d, f"crash{n}.pkl")}, case["hs_save"]) for n in crash_ns if n < nsteps or n == 0]
            sres = enginekit.run_workers(saves + crashes, parallel=10)
            cres = sres[len(saves):]
            sres = sres[:len(saves)]
            resumes = [({"spec": spec, "mode": "step", "noise": case["noise"] + 1, "resume_path": os.path.join(d, f"bk{n}.pkl")},
                        case["hs_resume"]) for n in range(nsteps + 1)]
            cresumes = [({"spec": spec, "mode": "step", "noise": case["noise"] + 3, "resume_path": j["save_path"]}, case["hs_resume"])
                        for j, _ in crashes]
            rres = enginekit.run_workers(resumes + cresumes, parallel=10)
            crres = rres[len(resumes):]
            rres = rres[:len(resumes)]
            out = []
            for (j, _), s_, r in zip(crashes, cres, crres):
                out.append({"n": f"crash@{j['crash_at']}", "save_error": s_.get("error"), "error": r.get("error"), "digests": r.get("digests"),
                            "results": r.get("results"), "final_table": r.get("final_table"),
                            "save_trace": (s_.get("trace") or "")[-600:] if s_.get("error") else "",
                            "trace": (r.get("trace") or "")[-500:] if r.get("error") else ""})
            for n, (s, r) in enumerate(zip(sres, rres)):
                out.append({"n": n, "save_error": s.get("error"), "error": r.get("error"), "digests": r.get("digests"),
                            "results": r.get("results"), "final_table": r.get("final_table"),
                            "save_trace": (s.get("trace") or "")[-600:] if s.get("error") else "",
                            "trace": (r.get("trace") or "")[-500:] if r.get("error") else ""})
            return {"full": {"error": None, "digests": full["digests"], "results": full["results"], "final_table": full["final_table"]},
                    "nsteps": nsteps, "resumed": out}
        finally:
            shutil.rmtree(d, ignore_errors=True)

    def oracle(self, case, obs):
        f = []
        if obs["full"]["error"]:
            return [{"sig": "run-raised", "msg": obs["full"]["error"] + obs["full"].get("trace", "")}]
        base = obs["full"]
        for r in obs["resumed"]:
            if r["save_error"] and r["save_error"].startswith("AssertionError") and "in memoize" in r["save_trace"] and "pickle.py" in r["save_trace"]:
                # CPython's pickler asserts when two EMPTY buffers share an id (protocol 5, empty numpy arrays of an empty
                # population): an interpreter defect, not vivarium's; the boundary is skipped and counted in the tags
                continue
            if r["save_error"]:
                f.append({"sig": "backup-raised", "msg": f"boundary {r['n']}: {r['save_error']} {r['save_trace']}"})
            elif r["error"]:
                f.append({"sig": "resume-raised", "msg": f"boundary {r['n']}: {r['error']} {r['trace']}"})
            elif r["digests"] != base["digests"]:
                k = next((k for k, (a, b) in enumerate(zip(r["digests"], base["digests"])) if a != b), min(len(r["digests"]), len(base["digests"])))
                f.append({"sig": "resumed-state-differs", "msg": f"interrupted after step {r['n']}: digest #{k} "
                          f"{r['digests'][k] if k < len(r['digests']) else None} != {base['digests'][k] if k < len(base['digests']) else None}"})
            elif r["results"] != base["results"] or r["final_table"] != base["final_table"]:
                f.append({"sig": "resumed-results-differ", "msg": f"interrupted after step {r['n']}: results {r['results']} != {base['results']}"})
        return f

    def nontrivial(self, case, obs):
        d = obs["full"].get("digests") or []
        return obs.get("nsteps", 0) >= 1 and len({x.split(":")[1] for x in d}) >= 2 and case["spec"]["pop"] > 0

    def tags(self, case, obs):
        s = case["spec"]
        t = [s["clock"], f"crn{s['crn_keys']}", f"boundaries:{obs.get('nsteps', 0) + 1}"]
        for k in ("mort", "disease", "stepmod", "obs", "extras"):
            t.append(k if s.get(k) else "no-" + k)
        t += ["resumed-ok" for r in obs["resumed"] if not r["error"] and not r["save_error"]]
        t += ["skipped:cpython-empty-buffer-pickle-assert" for r in obs["resumed"]
              if r["save_error"] and r["save_error"].startswith("AssertionError") and "in memoize" in r["save_trace"]]
        return t

    def sample_view(self, case, obs):
        return {"spec": case["spec"], "hs_save": case["hs_save"], "hs_resume": case["hs_resume"], "boundaries": obs.get("nsteps", 0) + 1,
                "full_digests": (obs["full"].get("digests") or [])[:5], "results": obs["full"].get("results")}


PROP = C18()
