"""C19 — the artifact's keys, file and contents always agree.

Tie: correspondence. Random operation sequences (write / load / remove / replace / clear_cache / reopen /
load through a third Artifact with filter terms, with a stream of operations the artifact must reject) run on a
real `Artifact` on a scratch `.hdf` file. The artifact that PERFORMS the operations is opened – and re-opened –
with or without filter terms (row terms on index levels of the stored tables, draw selections, terms on absent
columns). After EVERY operation the harness records `art.keys`, `hdf.get_keys(file)`, the bare groups of the
file, a second, UNFILTERED `Artifact` opened on the same path and the data every reported key loads through it,
and (probe mode `self`) the view every key loads through the acting artifact itself. The same lines go to
Driver/C19.lean (Model/Artifact.lean: an HDF tree with path aliasing, `Keys`, `Artifact`, filter terms, `FArt`)
and everything is compared exactly. Data are compared through canonical forms (type, index names, column names,
rows of typed scalars; dtype object/str ignored) and identified by their position in the case's data table.

Oracle (the property, independent of the Lean model): a key -> data dictionary kept by the harness says
which operations must be refused and what every key must load; keys reported = keys loadable = keys of the
file = keys of a freshly opened artifact; refused operations leave keys, file tree and contents as they
were; a load under filter terms returns a sub-list of the rows (and a subset of the columns) of the
unfiltered load, and terms on columns that exist nowhere change nothing.

What the property requires for the unusual inputs (audit against notes/LESSONS.md):
  * JSON-representable values are compared modulo JSON (a tuple loads as a list, an int dict key as a str key, numpy.float64
    as float; NaN / Infinity / 2**70 / -0.0 / non-ASCII text must come back); integer width and object / str / category
    dtype of table cells are not compared, everything else (labels, names, order, Python type of every cell) is.
  * Tables with named, unnamed or default (RangeIndex) indexes, repeated and unsorted labels, categorical / datetime
    levels and columns, int32 / uint8 / float32 columns, int column names, Series of any name must round-trip.
    TOLERATED (coordinator's decision, tagged `tolerated:unnamed-index` in the distribution): index NAMES of unnamed levels
    are not part of the claim – the unnamed levels of a MultiIndex of an EMPTY frame or of a Series come back as level_0, …;
    an empty frame with ONE unnamed index is refused (IndexError in HDFStore.put), atomically.
    RECORDED FINDING F29 `draw-filter-series-name`: a stored Series whose name the draw selection does not contain cannot
    be loaded through an artifact with that draw filter (signature used for exactly that class).
  * Keys: any characters are legal in a part – blanks (F28), dashes, non-ASCII, … – except "." and "/" (the HDF path
    separator: a key containing it is malformed, F27).
  * `where` terms: integer, fractional (multiples of 1/8, on the float level) and string (== / != on string and
    categorical levels) constants; a fractional constant against an integer column is not generated (pandas rounds it).
  * Two live artifacts on one file: the property speaks about one artifact's history and freshly opened ones. A live
    artifact whose key list / cache is older than the other one's last mutation may report old keys and hand out old
    data (never data that was never written under that key: `invented-data`); once such an artifact has WRITTEN (it
    persists its old key list) only `invented-data` and "refused / reading operations change nothing" are claimed.
  * A real simulation (kind "sim"): builder.data.load through the ArtifactManager must return exactly what
    `manager_expected` computes from the configuration (input_draw_number incl. 0, artifact_filter_term) and the written
    data; the artifact file's bytes must not change; a compound artifact_filter_term must be refused at setup.

The input classes with a recorded finding get their own stable signature (and only they):
  draw-filter-series-name  see above (F29)
  nested-key-paths      the failing key's HDF path is a prefix / extension of the path of another key that a
                        write / replace / remove of the history addressed, or of metadata.keyspace (F12)
"""
from __future__ import annotations

import json
import os
import random
import shutil
import tempfile

from .. import impl
from ..runner import Prop

KS = "metadata.keyspace"
FLAT = ["x.y.z", "x.y.w", "x.v", "m.n", "m.o.p", "g.h"]
NEST = ["a.b", "a.b.c", "a.b.d", "a.c", "a.c.e"]
MALFORMED = ["a", "a.b.c.d", "a..b", ".a.b", "a.b.", "", ".", "a.", "..", "a.b..c", "a.b.c.d.e",
             "p/q.r", "a.b/c", "/a.b", "a.b.c/", "a/b/c", "x.y/z.w"]
INT_LEVELS = ["i", "j", "year", "age"]
TERM_COLS = ["i", "j", "year", "age", "index", "value", "zz", "draw_0", "qq", "s", "sex", "f"]
UNUSUAL = ["x-1.9y.Zö", "Ä.ü", "a!b.c:d", "q.r-s", "T.U.V", "0.1", "k l.m n", "b c.d", " lead.trail "]      # legal keys with unusual characters, unrelated to every other pool key
NOWHERE = {"zz", "qq"}            # column names no generated data ever has, in any role
CMPS = {"lt": "<", "le": "<=", "eq": "==", "ne": "!=", "ge": ">=", "gt": ">"}
STORABLE = ("json", "frame", "series")
UNSER = ["set", "object", "nested", "bytes", "key", "ndarray", "npint", "timestamp", "frame-in-dict"]
ZEROROW = ["df", "cols", "series", "indexed", "multi"]
BADFRAME = ["sets", "mixed", "empty-unnamed", "empty-range"]
MUTATING = ("write", "replace", "remove")


# --------------------------------------------------------------------------------------------- keys
def parts(key: str):
    return key.split(".")


def well_formed(key: str) -> bool:
    """the property's notion of a well-formed key: two or three non-empty dot-separated parts that are names –
    no "/" (the HDF path separator; F27)"""
    ps = parts(key)
    return len(ps) in (2, 3) and all(ps) and "/" not in key


def related(k1: str, k2: str) -> bool:
    """HDF path of one key is a proper prefix of the other's"""
    a, b = parts(k1), parts(k2)
    if a == b:
        return False
    n = min(len(a), len(b))
    return a[:n] == b[:n]


def enc_key(key: str) -> str:
    """keys on the line protocol: every character outside [A-Za-z0-9_./] as ~<hex code point>~ (the model treats key
    parts as opaque names; dots, slashes and emptiness are preserved)"""
    return "".join(c if (c.isascii() and (c.isalnum() or c in "_./")) else f"~{ord(c):x}~" for c in key)


def dec_key(tok: str) -> str:
    out, i = [], 0
    while i < len(tok):
        if tok[i] == "~":
            j = tok.index("~", i + 1)
            out.append(chr(int(tok[i + 1:j], 16)))
            i = j + 1
        else:
            out.append(tok[i])
            i += 1
    return "".join(out)


# --------------------------------------------------------------------------------------------- data
T0 = "2020-01-01"
SCALE = 8          # every generated number that a `where` term can see is a multiple of 1/8


def _level(vals, ldtype):
    import pandas as pd
    if ldtype == "category":
        return pd.Categorical(vals)
    if ldtype == "datetime":
        return [pd.Timestamp(T0) + pd.Timedelta(days=int(v)) for v in vals]
    return list(vals)


def _column(vals, dtype):
    import numpy as np
    import pandas as pd
    if dtype == "category":
        return pd.Categorical(vals)
    if dtype == "datetime":
        return [pd.Timestamp(T0) + pd.Timedelta(days=int(v)) for v in vals]
    if dtype in ("int32", "float32", "uint8", "int8"):
        return np.array(vals, dtype=dtype)
    return list(vals)


def _pyjson(v, how):
    """JSON-serialisable Python values that are not what they load back as"""
    import numpy as np
    if how == "tuple":
        return tuple(_pyjson(x, how) for x in v) if isinstance(v, list) else v
    if how == "intkeys":
        return {int(k): x for k, x in v.items()}
    if how == "npfloat":
        return np.float64(v)
    if how == "nan":
        return [float("nan"), float("inf"), v]
    return v


def build(spec):
    """the Python value a data spec denotes"""
    import numpy as np
    import pandas as pd
    t = spec["t"]
    if t == "json":
        return _pyjson(spec["v"], spec.get("py"))
    if t in ("frame", "series"):
        names, rows = spec["names"], spec["index"]
        ld = spec.get("ldtypes") or [None] * len(names)
        if spec.get("default_index"):
            index = None
        elif len(names) == 1:
            index = pd.Index(_level([r[0] for r in rows], ld[0]), name=names[0])
        else:
            index = pd.MultiIndex.from_arrays([_level([r[k] for r in rows], ld[k]) for k in range(len(names))], names=names)
        if t == "series":
            return pd.Series(_column(spec["values"], spec.get("dtype")), index=index, name=spec["name"])
        dts = spec.get("dtypes") or {}
        cols = {(int(c[1:]) if c.startswith("#") else c): _column(v, dts.get(c)) for c, v in spec["cols"]}
        if not cols:
            return pd.DataFrame(index=index if index is not None else pd.RangeIndex(len(rows)))
        return pd.DataFrame(cols, index=index)
    if t == "unser":
        return {"set": {1, 2}, "object": object(), "nested": {"a": [1, {"b": {3}}]}, "bytes": b"xy", "key": {(1, 2): 3},
                "ndarray": np.array([1, 2]), "npint": np.int64(3), "timestamp": pd.Timestamp(T0),
                "frame-in-dict": {"a": pd.DataFrame({"v": [1]})}}[spec["v"]]
    if t == "zerorow":
        return {"df": pd.DataFrame(), "cols": pd.DataFrame({"value": []}),
                "series": pd.Series([], dtype=float, name="value"),
                "indexed": pd.DataFrame({"value": []}, index=pd.Index([], name="i")),
                "multi": pd.DataFrame({"value": []}, index=pd.MultiIndex.from_tuples([], names=["i", "j"]))}[spec["v"]]
    if t == "badframe":
        if spec["v"] == "sets":
            return pd.DataFrame({"value": [{1}, {2}]}, index=pd.Index([1, 2], name="i"))
        if spec["v"] == "empty-unnamed":      # tolerated class `unnamed-index`: HDFStore.put raises IndexError
            return pd.DataFrame(index=pd.Index([5, 6, 7]))
        if spec["v"] == "empty-range":
            return pd.DataFrame(index=pd.RangeIndex(3))
        return pd.DataFrame({"value": [1, "a"]}, index=pd.Index([1, 2], name="i"))
    raise ValueError(t)


def _cv(x):
    import numpy as np
    import pandas as pd
    if isinstance(x, (bool, np.bool_)):
        return ["b", bool(x)]
    if isinstance(x, (int, np.integer)):
        return ["i", int(x)]          # integer width (int32 / int64 / uint8) is not compared
    if isinstance(x, (float, np.floating)):
        return ["f", float(x).hex()]
    if isinstance(x, str):
        return ["s", str(x)]
    if x is None:
        return ["n"]
    if isinstance(x, (pd.Timestamp, np.datetime64)):
        return ["t", str(pd.Timestamp(x))]
    return ["?", repr(x)[:40]]


def _nm(n):
    return n if n is None or isinstance(n, str) else f"<{n!r}>"


def canon(obj):
    """canonical, JSON-serialisable form of a loaded / built value (dtype object / str / category and integer
    width ignored; labels, names, order of rows and columns, Python type of every scalar compared)"""
    import pandas as pd
    if isinstance(obj, pd.DataFrame):
        idx = [list(t) if isinstance(t, tuple) else [t] for t in obj.index.tolist()]
        vals = [[obj.iloc[r, c] for c in range(obj.shape[1])] for r in range(len(obj))]
        return {"t": "frame", "names": [_nm(n) for n in obj.index.names],
                "cols": [_nm(c) for c in obj.columns],
                "rows": [[_cv(v) for v in i] + [_cv(v) for v in row] for i, row in zip(idx, vals)]}
    if isinstance(obj, pd.Series):
        idx = [list(t) if isinstance(t, tuple) else [t] for t in obj.index.tolist()]
        return {"t": "series", "names": [_nm(n) for n in obj.index.names],
                "cols": [_nm(obj.name)],
                "rows": [[_cv(v) for v in i] + [_cv(x)] for i, x in zip(idx, obj.tolist())]}
    try:
        return {"t": "json", "v": json.dumps(obj, sort_keys=True)}      # modulo JSON: tuple = list, int key = str key
    except Exception:  # noqa: BLE001
        return {"t": "other", "v": repr(obj)[:60]}


def spec_canon(spec):
    if spec["t"] not in STORABLE:
        return None
    c = canon(build(spec))
    if spec["t"] != "json" and len(spec["names"]) > 1 and all(n is None for n in spec["names"]) and not spec.get("default_index") \
            and (spec["t"] == "series" or not spec["cols"]):
        # tolerated class `unnamed-index`: an empty frame and a Series are stored with their index turned into
        # columns; the levels of a MultiIndex without names come back under pandas' default names level_0, level_1, …
        c["names"] = [f"level_{k}" for k in range(len(spec["names"]))]
    return c


def first_ids(data):
    """data id -> the first id with the same canonical form (two specs may denote equal values)"""
    cs = [json.dumps(spec_canon(s), sort_keys=True) if s["t"] in STORABLE else None for s in data]
    out = []
    for i, c in enumerate(cs):
        out.append(i if c is None else cs.index(c))
    return out


def mutated_spec(spec):
    """the value a loaded object denotes after the CALLER mutated it in place with `mutate_inplace` (None: the
    loaded object is immutable or the mutation is not defined for it)"""
    if spec["t"] == "json":
        v, py = spec["v"], spec.get("py")
        if py not in (None, "tuple", "intkeys"):
            return None
        if isinstance(v, list):
            return {"t": "json", "v": v + ["mutated in place"]}
        if isinstance(v, dict):
            return {"t": "json", "v": dict(v, mutated=1)}
        return None
    if spec["t"] in ("frame", "series") and spec["index"]:
        first = spec["index"][0]
        keep = [r for r, lab in enumerate(spec["index"]) if lab != first]
        if not keep:
            return None           # dropping the only row would leave a ZERO-ROW object, which the HDF layer refuses (its own kind, "zerorow")
        out = dict(spec, index=[spec["index"][r] for r in keep])
        if spec.get("default_index"):
            out["default_index"] = False
            out["index"] = [[r] for r in keep]
        if spec["t"] == "series":
            out["values"] = [spec["values"][r] for r in keep]
        else:
            out["cols"] = [[c, [v[r] for r in keep]] for c, v in spec["cols"]]
        return out
    return None


def mutate_inplace(x):
    """what a careless caller does to the object `Artifact.load` handed out"""
    import pandas as pd
    if isinstance(x, list):
        x.append("mutated in place")
    elif isinstance(x, dict):
        x["mutated"] = 1
    elif isinstance(x, (pd.DataFrame, pd.Series)):
        x.drop(index=x.index[0], inplace=True)


def _numeric(vals):
    return all(isinstance(v, (int, float)) and not isinstance(v, bool) and float(v) * SCALE == int(float(v) * SCALE) for v in vals)


def table_cols(spec):
    """what filter terms can see of a stored pandas object (layout of HDFStore.put(format='table') as used by
    hdf._write_pandas_data): the queryable columns with their values (numbers or strings only), the value
    columns, is_empty, is_series. Derived from the spec alone, never read back from the file."""
    names, rows = spec["names"], spec["index"]
    n = len(rows)
    ld = spec.get("ldtypes") or [None] * len(names)
    default = bool(spec.get("default_index"))
    levels = {} if default else {nm: [r[k] for r in rows] for k, nm in enumerate(names) if nm is not None and ld[k] != "datetime"}
    multi = len(names) > 1 and not default
    first = list(range(n)) if default else [r[0] for r in rows]
    if spec["t"] == "series":
        cols, empty = [spec["name"]], False
        q = {"index": list(range(n))} if multi else {"index": first}
        if multi:
            q.update(levels)
        if spec["name"] is not None and spec.get("dtype") != "datetime":
            q[spec["name"]] = list(spec["values"])
    else:
        cols = [_nm(int(c[1:])) if c.startswith("#") else c for c, _ in spec["cols"]]     # canonical column names
        empty = not cols
        if empty or multi:
            q = {"index": list(range(n))}
            q.update(levels)
        else:
            q = {"index": first}
    q = {c: v for c, v in q.items() if _numeric(v) or all(isinstance(x, str) for x in v)}
    return q, cols, empty, spec["t"] == "series"


class Vocab:
    """strings as integer codes for the model (only == / != are used on strings)"""

    def __init__(self):
        self.codes = {}

    def num(self, v):
        if isinstance(v, str):
            return self.codes.setdefault(v, 1000003 + 7 * len(self.codes))
        return int(round(float(v) * SCALE))


def table_view(spec, vocab):
    q, cols, empty, series = table_cols(spec)
    qcols = list(q)
    n = len(spec["index"])
    return qcols, [[vocab.num(q[c][r]) for c in qcols] for r in range(n)], cols, empty, series


# --------------------------------------------------------------------------------------------- terms
def render_term(t) -> str:
    if t[0] == "atom":
        v = t[3]
        return f"{t[1]} {CMPS[t[2]]} " + (f"'{v}'" if isinstance(v, str) else repr(v))
    if t[0] == "and":
        return f"({render_term(t[1])}) & ({render_term(t[2])})"
    if t[0] == "or":
        return f"({render_term(t[1])}) | ({render_term(t[2])})"
    ns, style = t[1], t[2]
    if style == "in":
        return "draw in [" + ",".join(str(n) for n in ns) + "]"
    return f"draw {'==' if style == 'eq' else '='} {ns[0]}"


def rpn(t, vocab) -> list:
    if t[0] == "atom":
        return [f"{t[1]}:{t[2]}:{vocab.num(t[3])}"]
    if t[0] in ("and", "or"):
        return rpn(t[1], vocab) + rpn(t[2], vocab) + ["&" if t[0] == "and" else "|"]
    return [":".join(["draws"] + [str(n) for n in t[1]])]


def term_cols(t) -> set:
    if t[0] == "atom":
        return {t[1]}
    if t[0] in ("and", "or"):
        return term_cols(t[1]) | term_cols(t[2])
    return {"draw"}


_PYCMP = {"lt": lambda a, b: a < b, "le": lambda a, b: a <= b, "eq": lambda a, b: a == b,
          "ne": lambda a, b: a != b, "ge": lambda a, b: a >= b, "gt": lambda a, b: a > b}


def _holds(t, row) -> bool:
    if t[0] == "atom":
        return _PYCMP[t[2]](row[t[1]], t[3])
    if t[0] == "and":
        return _holds(t[1], row) and _holds(t[2], row)
    if t[0] == "or":
        return _holds(t[1], row) or _holds(t[2], row)
    return True


def draw_columns(terms):
    """what the property text / the documentation of filter terms says a draw selection keeps: draw_<n> for the
    selected n, and `value`. Returns "refused" for what the constructor must refuse (several draw terms, none selected)."""
    ds = [t for t in terms if t[0] == "draws"]
    if len(ds) > 1 or (ds and not ds[0][1]):
        return "refused"
    return None if not ds else [f"draw_{n}" for n in ds[0][1]] + ["value"]


def expected_view(spec, terms):
    """the rows (positions) and value columns an artifact with filter `terms` must hand out for the stored pandas
    object `spec` – evaluated in Python on the spec (the property: terms restrict rows; terms that reference a
    column the stored table does not offer are ignored; a draw selection keeps the selected draw columns and
    `value`). "raises": tolerated class `draw-filter-series-name`."""
    q, cols, empty, series = table_cols(spec)
    n = len(spec["index"])
    valid = [t for t in terms if t[0] != "draws" and term_cols(t) <= set(q)]
    rows = [r for r in range(n) if all(_holds(t, {c: q[c][r] for c in q}) for t in valid)]
    want = draw_columns(terms)
    if want is None or want == "refused" or empty:
        return rows, cols
    kept = [c for c in want if c in cols]
    if series and not kept:
        return "raises"
    return rows, (cols if series else kept)


# --------------------------------------------------------------------------------------------- implementation
def _digest(path):
    import hashlib
    with open(path, "rb") as f:
        return hashlib.md5(f.read()).hexdigest()


def _observe(art, path, mode, ident, view, memo=None):
    """keys, hdf.get_keys, bare groups, a second UNFILTERED Artifact on the path and what every reported key
    loads through it; in `self` mode also what every key loads through the acting artifact (its filter terms,
    its cache). `memo` (unless the case asks for full observations): what is a function of the file's bytes
    alone (everything but art.keys and loads through `art`) is re-used while the bytes have not changed."""
    from vivarium.framework.artifact import Artifact, hdf
    import tables
    o = {"keys": [str(k) for k in art.keys]}
    # other call forms of the same question: iteration and membership must agree with `keys`
    o["forms_ok"] = (list(art) == list(art.keys) and all(k in art for k in art.keys)
                     and "never.written.key" not in art and repr(art) == f"Artifact(keys={art.keys})")
    reuse = None
    if memo is not None and memo.get("h") is not None and memo["h"] == _digest(path):
        reuse = memo["obs"]
    if reuse is not None:
        o["file"], o["groups"], o["fresh"] = list(reuse["file"]), list(reuse["groups"]), reuse["fresh"]
        if "fresh_exc" in reuse:
            o["fresh_exc"] = reuse["fresh_exc"]
        fresh = None
    else:
        o["file"] = sorted(str(k) for k in hdf.get_keys(path))
        groups = []
        with tables.open_file(path) as f:
            for g in f.walk_groups("/"):
                ps = g._v_pathname.strip("/").split("/")
                if g._v_pathname == "/" or len(ps) not in (2, 3) or any(x.startswith("_i_") or x == "meta" for x in ps):
                    continue
                if "table" in g._v_children:      # the group of a pandas storer: a data node, not a bare group
                    continue
                groups.append(".".join(ps))
        o["groups"] = sorted(groups)
        h_before = _digest(path) if memo is not None else None
        try:
            fresh = Artifact(path)
            o["fresh"] = [str(k) for k in fresh.keys]
        except Exception as e:  # noqa: BLE001
            fresh = None
            o["fresh"] = "err"
            o["fresh_exc"] = type(e).__name__
    loads = {}
    for k in o["keys"] + [x for x in (o["fresh"] if o["fresh"] != "err" else []) if x not in o["keys"]]:
        if k == KS:
            continue
        if o["fresh"] == "err":
            loads[k] = "nofresh"
            continue
        if reuse is not None and k in reuse["fresh_loads"]:
            loads[k] = reuse["fresh_loads"][k]
            continue
        if fresh is None:
            fresh = Artifact(path)
        try:
            loads[k] = ident(fresh.load(k))
        except Exception:  # noqa: BLE001
            loads[k] = "err"
    o["loads"] = loads
    if memo is not None:
        fl = dict(reuse["fresh_loads"]) if reuse is not None else {}
        fl.update(loads)
        memo["obs"] = {"file": o["file"], "groups": o["groups"], "fresh": o["fresh"], "fresh_loads": fl}
        if "fresh_exc" in o:
            memo["obs"]["fresh_exc"] = o["fresh_exc"]
        h_after = _digest(path)
        # a second Artifact that repaired the file (no key space node) invalidates what was read before it
        memo["h"] = h_after if reuse is not None or h_after == h_before else None
    o["self"] = None
    if mode == "self":
        o["self"] = {}
        for k in o["keys"]:
            if k == KS:
                continue
            try:
                o["self"][k] = view(art.load(k))
            except Exception:  # noqa: BLE001
                o["self"][k] = "err"
    return o


def _run(case):
    impl.load()
    from vivarium.framework.artifact import Artifact
    d = tempfile.mkdtemp(prefix="vc19-")
    try:
        path = os.path.join(d, "t.hdf")
        data = case["data"]
        cstr = [json.dumps(spec_canon(s), sort_keys=True) if s["t"] in STORABLE else None for s in data]

        def ident(x):
            if isinstance(x, list) and x and all(isinstance(e, str) for e in x) and KS in x:
                return ["keys", list(x)]
            c = json.dumps(canon(x), sort_keys=True)
            return ["d", cstr.index(c)] if c in cstr else ["unknown", c[:200]]

        def view(x):
            """what the acting artifact hands out: tables as they are (its filter terms shape them), the rest by id"""
            c = canon(x)
            return ["filtered", c] if c["t"] in ("frame", "series") else ["data", ident(x)]

        import pathlib
        if case.get("noise"):      # process history: another artifact with other terms was used (and stays alive) in this process
            other = Artifact(os.path.join(d, "other.hdf"), filter_terms=["year > 3", "draw == 2"])
            other.write("x.y.z", build({"t": "frame", "names": ["year"], "index": [[1], [5]], "cols": [["draw_2", [1.0, 2.0]]]}))
            other.load("x.y.z")
        apath = pathlib.Path(path) if case.get("pathobj") else path          # both call forms of the constructor
        art = Artifact(apath, filter_terms=[render_term(t) for t in case.get("terms") or []] or None)
        parked = None
        mode = case["probe"]
        memo = None if case.get("fullobs") else {}
        out = {"init": _observe(art, path, mode, ident, view, memo), "ops": []}
        for op in case["ops"]:
            rec = {"out": "ok"}
            try:
                kind = op[0]
                if kind == "write":
                    art.write(op[1], None if op[2] is None else build(data[op[2]]))
                elif kind == "replace":
                    art.replace(op[1], None if op[2] is None else build(data[op[2]]))
                elif kind == "remove":
                    art.remove(op[1])
                elif kind == "load":
                    rec["out"] = view(art.load(op[1]))
                elif kind == "mutate":       # the caller mutates the loaded object in place (only when it is what the generator assumed)
                    x = art.load(op[1])
                    if not art.filter_terms and json.dumps(canon(x), sort_keys=True) == cstr[op[2]] and mutated_spec(data[op[2]]) is not None:
                        mutate_inplace(x)
                        rec["out"] = "mutated"
                    else:
                        rec["out"] = view(x)
                elif kind == "restore":      # the caller hands the very object `load` returned (mutated in place or not) back to replace
                    x = art.load(op[1])
                    ok_src = not art.filter_terms and json.dumps(canon(x), sort_keys=True) == cstr[op[2]]
                    if not ok_src:
                        rec["out"] = view(x)               # not what the generator assumed (or a filtered view): a plain load
                    else:
                        if op[3] is not None:
                            mutate_inplace(x)
                        rec["after_load"] = True
                        art.replace(op[1], x)
                        rec["out"] = "restored"
                elif kind == "mutate-keys":  # the caller edits, in place, the list `art.keys` handed out (his own copy: F36)
                    ks = art.keys
                    {"remove-ks": lambda: KS in ks and ks.remove(KS), "reverse": ks.reverse, "clear": ks.clear,
                     "ghost": lambda: ks.append("ghost.key")}[op[1]]()
                elif kind == "clear":
                    art.clear_cache()
                elif kind == "reopen":
                    art = Artifact(apath, filter_terms=[render_term(t) for t in op[1]] or None)
                elif kind == "switch":       # two live artifacts on one file
                    if parked is None:
                        new = Artifact(apath, filter_terms=[render_term(t) for t in op[1]] or None)
                        art, parked = new, art
                    else:
                        art, parked = parked, art
                elif kind == "fload":
                    terms = [render_term(t) for t in op[2]]
                    rec["terms"] = terms
                    try:
                        a3 = Artifact(path, filter_terms=terms)
                    except Exception as e:  # noqa: BLE001
                        rec["out"] = "ctor-err"
                        rec["exc"] = type(e).__name__
                        a3 = None
                    if a3 is not None:
                        rec["out"] = view(a3.load(op[1]))
                else:
                    raise ValueError(f"harness: unknown op {kind}")
            except Exception as e:  # noqa: BLE001
                if str(e).startswith("harness:"):
                    raise
                rec["out"] = "err"
                rec["exc"] = type(e).__name__
            rec["obs"] = _observe(art, path, mode, ident, view, memo)
            out["ops"].append(rec)
        return out
    finally:
        shutil.rmtree(d, ignore_errors=True)


# --------------------------------------------------------------------------------------------- a real simulation
def manager_expected(spec, draw, term, filters):
    """what `builder.data.load(key, **filters)` must return for the stored value `spec` in a simulation configured with
    input_data.input_draw_number = draw and input_data.artifact_filter_term = term – from the documentation of
    ArtifactManager.load / filter_data and the spec alone: the artifact's view under "draw == <draw>", index turned
    into columns, the draw column renamed to `value`, the configured term applied when its column exists, rows
    subset to the requested values of the filter columns, filter columns and `draw` dropped.
    Returns ("json",) | ("raises", why) | ("frame", columns, rows, labels)."""
    if spec["t"] == "json":
        return ("json",)
    ev = expected_view(spec, [["draws", [draw], "eq"]] if draw is not None else [])
    if ev == "raises":
        return ("raises", "draw-filter-series-name")
    rows, vcols = ev
    if spec["t"] == "series":
        return ("series", rows)
    names = list(spec["names"])
    colvals = dict(spec["cols"])
    ld = spec.get("ldtypes") or [None] * len(names)
    table = {nm: [_lv(r[k], ld[k]) for r in spec["index"]] for k, nm in enumerate(names)}
    for c in vcols:
        table[c] = [_lv(v, (spec.get("dtypes") or {}).get(c)) for v in colvals[c]]
    cols = names + list(vcols)
    dc = [c for c in cols if "draw" in c]
    if dc:
        table = {("value" if c == dc[0] else c): v for c, v in table.items()}
        cols = ["value" if c == dc[0] else c for c in cols]
    keep = list(rows)
    if term is not None:
        tcol, tcmp, tval = term
        if tcol in cols:
            keep = [r for r in keep if _PYCMP[tcmp](table[tcol][r], tval)]
    extra = [c for c in filters if c not in cols]
    if extra:
        return ("raises", "filter-on-absent-column")
    for c, cond in filters.items():
        cond = cond if isinstance(cond, list) else [cond]
        keep = [r for r in keep if any(table[c][r] == x for x in cond)]
    out = [c for c in cols if c not in filters and c != "draw"]
    return ("frame", out, [[_cv(table[c][r]) for c in out] for r in keep], keep)


def _lv(v, dtype):
    import pandas as pd
    return pd.Timestamp(T0) + pd.Timedelta(days=int(v)) if dtype == "datetime" else v


def render_config_term(term, style):
    if term is None:
        return None
    col, cmp_, val = term
    v = f"'{val}'" if isinstance(val, str) else repr(val)
    return f"{col}{CMPS[cmp_]}{v}" if style == "tight" else f"{col} {CMPS[cmp_]} {v}"


def _run_sim(case):
    """a real SimulationContext whose configuration points at an artifact: a probe component loads keys through
    builder.data.load (ArtifactManager) during setup"""
    impl.load()
    from vivarium import Component
    from vivarium.framework.artifact import Artifact
    from vivarium.framework.engine import SimulationContext
    d = tempfile.mkdtemp(prefix="vc19-")
    try:
        path = os.path.join(d, "artifact.hdf")
        data = case["data"]
        cstr = [json.dumps(spec_canon(s), sort_keys=True) if s["t"] in STORABLE else None for s in data]

        def ident(x):
            c = json.dumps(canon(x), sort_keys=True)
            return ["d", cstr.index(c)] if c in cstr else ["unknown", c[:200]]

        def view(x):
            c = canon(x)
            return ["filtered", c] if c["t"] in ("frame", "series") else ["data", ident(x)]

        writer = Artifact(path)
        for k, di in case["writes"]:
            writer.write(k, build(data[di]))
        before = _digest(path)
        out = {"loads": [], "setup": "ok"}

        class Probe(Component):
            def setup(self, builder):
                for k, filters in case["loads"]:
                    try:
                        out["loads"].append(view(builder.data.load(k, **filters)))
                    except Exception as e:  # noqa: BLE001
                        out["loads"].append(["err", type(e).__name__])
                out["value_columns"] = list(builder.data.value_columns()("anything"))

        cfg = case["config"]
        SimulationContext._clear_context_cache()
        conf = {"input_data": {"artifact_path": path, "input_draw_number": cfg["draw"],
                               "artifact_filter_term": render_config_term(cfg["term"], cfg.get("style", "spaced")) if cfg.get("raw_term") is None
                               else cfg["raw_term"]},
                "population": {"population_size": 1}}
        sim = SimulationContext(components=[Probe()], configuration=conf, logging_verbosity=0)
        try:
            sim.setup()
        except Exception as e:  # noqa: BLE001
            out["setup"] = "err:" + type(e).__name__
        art = getattr(sim._data, "artifact", None)
        out["art_terms"] = None if art is None else art.filter_terms
        out["art_loads"] = {}
        if art is not None:
            art.clear_cache()
            for k, _ in case["writes"]:
                try:
                    out["art_loads"][k] = view(art.load(k))
                except Exception:  # noqa: BLE001
                    out["art_loads"][k] = "err"
        out["file_unchanged"] = _digest(path) == before
        return out
    finally:
        shutil.rmtree(d, ignore_errors=True)


# --------------------------------------------------------------------------------------------- the check
class C19(Prop):
    id = "C19"
    lean_modules = ["VivModel.Props.C19", "VivModel.Props.C19Src"]
    build_targets = ["VivModel.Model.Artifact", "VivModel.Model.Proto"]
    driver = "C19"
    technique = ("Lean 4 proof (invariant over all operation sequences by induction, refinement to a key -> data map, "
                 "decide witnesses for the recorded findings) + exact correspondence of a real Artifact on a scratch HDF file "
                 "with the model after every operation")
    partial = ("HDF5 / PyTables / pandas.HDFStore round-trip fidelity and their tree semantics (recursive put / remove_node, "
               "filenode refusing an occupied path) are I/O: modelled in Lean, explored by the harness, not proved; "
               "ops_K and the refinement are proved under the hypothesis that no key's HDF path is a prefix of another's (F12); "
               "'refused operations change nothing' is proved for the content (key -> data map, key set, K) always, and for the "
               "whole state except where a refused pandas value moves the key to the end of the key list / leaves a parent group")
    trusted_extra = ["PyTables/HDF5 and pandas.HDFStore as a tree of groups and leaves (Model/Artifact.lean doc-comment); "
                     "table_view() in vcheck/props/c19.py: which columns of a stored pandas object a `where` term can address"]
    n_quick = 40
    n_thorough = 700
    workers = 8
    case_timeout = 120
    rule = ("a case is an operation sequence (5-25 ops + hand-written boundaries) on one scratch artifact; distinct by case hash; "
            "non-trivial = at least one accepted mutation, one refused operation and one successful load")

    # ------------------------------------------------------------------ generation
    def _json(self, rng, depth=0):
        r = rng.random()
        if depth >= 2 or r < 0.45:
            return rng.choice([rng.randint(-5, 99), rng.randint(0, 40) / 4, f"s{rng.randint(0, 99)}", True, False, "", 0,
                               2 ** 70 + rng.randint(0, 9), -0.0, 1e300, "ünï cödé \u2603", "x" * 300]
                              + ([None] if depth else []))
        if r < 0.75:
            return [self._json(rng, depth + 1) for _ in range(rng.randint(0, 3))]
        return {f"k{j}": self._json(rng, depth + 1) for j in range(rng.randint(0, 3))}

    def _json_spec(self, rng):
        """JSON-representable Python values, also the ones that do not load back as the same Python type"""
        r = rng.random()
        if r < 0.1:
            return {"t": "json", "v": [self._json(rng, 1) for _ in range(rng.randint(0, 3))] + [[1, [2]]], "py": "tuple"}
        if r < 0.18:
            return {"t": "json", "v": {str(k): self._json(rng, 1) for k in rng.sample(range(9), rng.randint(1, 3))}, "py": "intkeys"}
        if r < 0.24:
            return {"t": "json", "v": rng.randint(0, 40) / 4, "py": "npfloat"}
        if r < 0.28:
            return {"t": "json", "v": rng.randint(0, 9), "py": "nan"}
        return {"t": "json", "v": self._json(rng)}

    def _index(self, rng, n, single_int=False, prefer=None):
        """index levels: kind per level (int / str / float / categorical / datetime), named, unnamed or the default
        RangeIndex; labels unsorted, sometimes repeated"""
        nlev = 1 if single_int else rng.choice([1, 2, 2, 3])
        if prefer is not None and nlev == 1 and rng.random() < 0.7:
            nlev = 2        # only the levels of a MultiIndex can be addressed by name in a `where` term
        base = rng.sample(range(0, 8), n) if rng.random() < 0.8 else [rng.randint(0, 3) for _ in range(n)]    # repeated labels
        names = [prefer if prefer is not None and rng.random() < 0.75 else rng.choice(INT_LEVELS)]
        cols, ld = [base], [None]
        for _ in range(nlev - 1):
            kind = rng.choice(["int", "int", "str", "float", "cat", "date"])
            if kind == "int":
                nm = rng.choice([x for x in INT_LEVELS if x not in names] or ["i2"])
                cols.append([rng.randint(0, 6) for _ in range(n)])
                ld.append(None)
            elif kind == "str" and "s" not in names:
                nm = "s"
                cols.append([rng.choice(["u", "v", "w"]) for _ in range(n)])
                ld.append(None)
            elif kind == "cat" and "sex" not in names:
                nm = "sex"
                cols.append([rng.choice(["m", "f"]) for _ in range(n)])
                ld.append("category")
            elif kind == "date" and "t" not in names:
                nm = "t"
                cols.append([rng.randint(0, 400) for _ in range(n)])
                ld.append("datetime")
            elif "f" not in names:
                nm = "f"
                cols.append([rng.randint(0, 12) / 4 + 0.25 for _ in range(n)])
                ld.append(None)
            else:
                continue
            names.append(nm)
        out = {"names": names, "index": [[c[r] for c in cols] for r in range(n)]}
        if any(ld):
            out["ldtypes"] = ld
        return out

    def _unname(self, rng, spec, allow_empty_frame):
        """index without names: every level unnamed, or no index given at all (the default RangeIndex)"""
        r = rng.random()
        if r >= 0.14:
            return spec
        empty = spec["t"] == "frame" and not spec["cols"]
        if r < 0.05 and not empty:
            spec = dict(spec, names=[None], index=[[k] for k in range(len(spec["index"]))], default_index=True)
            spec.pop("ldtypes", None)
            return spec
        if empty and (len(spec["names"]) == 1 or not allow_empty_frame):
            return spec          # an empty frame with one unnamed index is refused (class `empty-frame-unnamed-index`): refusal stream
        return dict(spec, names=[None] * len(spec["names"]))

    def _frame(self, rng, prefer=None):
        n = rng.randint(1, 5) if prefer is None else rng.randint(3, 6)
        idx = self._index(rng, n, prefer=prefer)
        ncols = rng.choice([0, 1, 1, 2, 3])
        cols, dts = [], {}
        for c in rng.sample(["value", "draw_0", "draw_1", "name", "flag", "age_end", "when", "#1"], ncols):
            if c == "name":
                v = [rng.choice(["p", "q", "r"]) for _ in range(n)]
                if rng.random() < 0.4:
                    dts[c] = "category"
            elif c == "flag":
                v = [rng.random() < 0.5 for _ in range(n)]
            elif c == "when":
                v = [rng.randint(0, 400) for _ in range(n)]
                dts[c] = "datetime"
            elif c in ("draw_0", "draw_1", "#1") and rng.random() < 0.5:
                v = [rng.randint(0, 50) for _ in range(n)]
                if rng.random() < 0.4:
                    dts[c] = rng.choice(["int32", "uint8", "int8"])
            else:
                v = [rng.randint(0, 400) / 8 for _ in range(n)]
                if rng.random() < 0.25:
                    dts[c] = "float32"
            cols.append([c, v])
        spec = dict({"t": "frame", "cols": cols}, **idx)
        if dts:
            spec["dtypes"] = dts
        return self._unname(rng, spec, allow_empty_frame=True)

    def _series(self, rng, prefer=None):
        n = rng.randint(1, 5)
        idx = self._index(rng, n, prefer=prefer)
        name = rng.choice(["value"] * 6 + ["rate", "draw_1", None])
        r = rng.random()
        if r < 0.45:
            vals = [rng.randint(0, 48) / 8 for _ in range(n)]
        elif r < 0.8 or name == "value":
            vals = [rng.randint(0, 6) for _ in range(n)]
        elif r < 0.9:
            vals = [rng.choice(["p", "q"]) for _ in range(n)]
        else:
            vals = [rng.random() < 0.5 for _ in range(n)]
        return self._unname(rng, dict({"t": "series", "name": name, "values": vals}, **idx), allow_empty_frame=False)

    def _good(self, rng, prefer=None):
        r = rng.random()
        if r < (0.4 if prefer is None else 0.25):
            return self._json_spec(rng)
        if r < 0.85:
            return self._frame(rng, prefer)
        return self._series(rng, prefer)

    def _acting(self, rng):
        """filter terms for the artifact that performs the operations: a row term on an index level name (values
        in the middle of the generated range, so that it usually excludes some rows and keeps some), a draw
        selection, a term on a column that exists nowhere – at least one of them; never two draw terms"""
        col = rng.choice(INT_LEVELS)
        ts = []
        if rng.random() < 0.7:
            ts.append(["atom", col, rng.choice(["ge", "gt", "le", "lt", "ne", "eq"]), rng.randint(2, 5)])
        if rng.random() < 0.35:
            style = rng.choice(["eq", "eq1", "in"])
            ts.append(["draws", [rng.randint(0, 1)] if style != "in" else rng.sample(range(3), rng.randint(1, 2)), style])
        if rng.random() < 0.2 or not ts:
            ts.append(["atom", rng.choice(sorted(NOWHERE)), "eq", 1] if ts or rng.random() < 0.5
                      else ["atom", col, rng.choice(["ge", "le"]), rng.randint(2, 5)])
        rng.shuffle(ts)
        return ts, col

    def _atom(self, rng):
        """a comparison of a column with a constant of the column's kind: integers, fractions (on the float level `f`),
        strings (on the string level `s` and the categorical level `sex`; == and != only)"""
        col = rng.choice(TERM_COLS)
        if col in ("s", "sex"):
            return ["atom", col, rng.choice(["eq", "ne"]), rng.choice(["u", "v", "w", "zz"] if col == "s" else ["m", "f", "zz"])]
        if col == "f" and rng.random() < 0.7:
            return ["atom", col, rng.choice(list(CMPS)), rng.randint(-2, 28) / 8]
        return ["atom", col, rng.choice(list(CMPS)), rng.randint(-1, 7)]

    def _term(self, rng, depth=0):
        r = rng.random()
        if depth >= 2 or r < 0.6:
            return self._atom(rng)
        return [rng.choice(["and", "or"]), self._term(rng, depth + 1), self._term(rng, depth + 1)]

    def _terms(self, rng):
        ts = [self._term(rng) for _ in range(rng.choice([0, 1, 1, 2, 3]))]
        r = rng.random()
        if r < 0.3:
            style = rng.choice(["eq", "eq1", "in"])
            ns = [rng.randint(0, 2)] if style != "in" else rng.sample(range(3), rng.randint(1, 2))
            ts.insert(rng.randint(0, len(ts)), ["draws", ns, style])
            if r < 0.04:
                ts.append(["draws", [1], "eq"])
        elif r < 0.33:
            ts.append(["draws", [], "in"])        # `draw in []`: the constructor refuses
        return ts

    # ---- lessons 12-13: exact repeats after intervening operations (other artifact / other kind), heterogeneous histories
    def _retyped(self, rng, spec):
        """the same table carried differently: another dtype of the value columns, as a Series, as JSON rows"""
        how = rng.choice(["float", "int", "str", "float32", "series", "json-rows", "json-dict", "category"])
        n = len(spec["index"])
        if how == "json-rows":
            return {"t": "json", "v": [list(r) for r in spec["index"]]}
        if how == "json-dict":
            return {"t": "json", "v": {"rows": n, "names": [str(x) for x in spec["names"]]}}
        idx = {k: spec[k] for k in ("names", "index", "ldtypes", "default_index") if k in spec}
        if how == "series":
            return dict({"t": "series", "name": rng.choice(["value", "value", "rate"]), "values": [rng.randint(0, 6) for _ in range(n)]}, **idx)
        vals = {"float": [rng.randint(0, 80) / 8 for _ in range(n)], "float32": [rng.randint(0, 80) / 8 for _ in range(n)],
                "int": [rng.randint(0, 9) for _ in range(n)], "str": [rng.choice(["p", "q"]) for _ in range(n)],
                "category": [rng.choice(["p", "q"]) for _ in range(n)]}[how]
        out = dict({"t": "frame", "cols": [["value", vals]] + ([["draw_0", [rng.randint(0, 9) for _ in range(n)]]] if rng.random() < 0.4 else [])}, **idx)
        if how in ("float32", "category"):
            out["dtypes"] = {"value": how}
        return out

    def _gen_history(self, rng):
        """dedicated mode: EPISODES `X ; k intervening operations ; X again, verbatim` on one or two live artifacts (one
        filtered, one not; one with a draw filter), X and the intervening operations ranging over every operation
        (write / remove / replace / load / clear / filtered load / in-place mutation of a loaded object / reopen), the
        intervening ones by the OTHER live artifact or of another kind; the same key carried as different kinds of
        data and dtypes along the history; every refused operation tried again"""
        pool = rng.sample(FLAT, rng.randint(2, 3)) + (rng.sample(UNUSUAL, 1) if rng.random() < 0.3 else [])
        row, pref = self._acting(rng)
        kinds = rng.choice([([], row), (row, []), ([["draws", [rng.randint(0, 1)], "eq"]], []), ([], [["draws", [0, 1], "in"]]), ([], [])])
        terms0, terms1 = kinds
        data, ops, hold = [], [], {}
        two = rng.random() < 0.75
        opened = [False]

        def D(spec):
            data.append(spec)
            return len(data) - 1

        def G():
            return self._good(rng, pref)

        def key(p_present=0.8):
            have = [k for k in pool if k in hold]
            if have and rng.random() < p_present:
                return rng.choice(have)
            return rng.choice(pool)

        def one(k=None, allow_switch=False):
            """one operation (as a list of ops, because of `switch`), the shadow `hold` updated as if it were accepted"""
            k = k or key()
            r = rng.random()
            if r < 0.16:
                d = D(G())
                hold.setdefault(k, d)
                return [["write", k, d]]
            if r < 0.28:
                hold.pop(k, None)
                return [["remove", k]]
            if r < 0.46:
                if k in hold and rng.random() < 0.5 and data[hold[k]]["t"] in ("frame", "series"):
                    d = D(self._retyped(rng, data[hold[k]]))                 # the same table, carried differently
                elif rng.random() < 0.2:
                    d = D({"t": "zerorow", "v": rng.choice(ZEROROW)} if rng.random() < 0.5 else {"t": "badframe", "v": rng.choice(BADFRAME)})
                    return [["replace", k, d]]
                elif rng.random() < 0.1:
                    return [["replace", k, rng.choice([None, D({"t": "unser", "v": rng.choice(UNSER)})])]]
                else:
                    d = D(G())
                if k in hold:
                    hold[k] = d
                return [["replace", k, d]]
            if r < 0.64:
                return [["load", k]]
            if r < 0.69:
                return [["clear"]]
            if r < 0.72:
                return [["mutate-keys", rng.choice(["remove-ks", "ghost", "clear", "reverse"])]]
            if r < 0.80:
                return [["fload", k, self._terms(rng)]]
            if r < 0.86 and k in hold and mutated_spec(data[hold[k]]) is not None:
                return [["mutate", k, hold[k], D(mutated_spec(data[hold[k]]))]]
            if r < 0.91 and k in hold and data[hold[k]]["t"] in STORABLE:
                src = hold[k]
                m = D(mutated_spec(data[src])) if mutated_spec(data[src]) is not None and rng.random() < 0.5 else None
                if m is not None:
                    hold[k] = m
                return [["restore", k, src, m]]
            if r < 0.95:
                return [["reopen", rng.choice([terms0, terms0, []])]]
            return [["load", k]]

        def other(k):
            """the same kinds of operation through the OTHER live artifact (or, with one artifact, of another kind)"""
            out = []
            if two:
                out.append(["switch", terms1 if not opened[0] else []])
                opened[0] = True
            for _ in range(rng.randint(1, 3)):
                out += one(k if rng.random() < 0.75 else None)
            if two:
                out.append(["switch", []])
            return out

        d0 = D(G())
        ops.append(["write", pool[0], d0])
        hold[pool[0]] = d0
        target = rng.choice([10, 14, 18, 24])
        while len(ops) < target:
            k = key()
            x = one(k)
            ops += x
            ops += other(k)
            ops += [list(o) for o in x]                       # X again, verbatim
            if rng.random() < 0.3:
                ops += other(k) if rng.random() < 0.5 else [["clear"]]
                ops += [list(o) for o in x]                   # and a third time
        case = {"probe": rng.choice(["self", "fresh"]), "terms": terms0, "data": data, "ops": ops}
        if rng.random() < 0.5:
            case["pathobj"] = True
        return case

    def generate(self, rng: random.Random, i: int, tier: str):
        r0 = rng.random()
        if r0 < 0.1:
            return self._gen_sim(rng)
        if r0 < 0.32:
            return self._gen_history(rng)
        nested = rng.random() < 0.35
        pool = rng.sample(FLAT, rng.randint(2, 4)) + (rng.sample(NEST, rng.randint(2, 4)) if nested else [])
        if rng.random() < 0.4:
            pool += rng.sample(UNUSUAL, rng.randint(1, 2))
        two_live = rng.random() < 0.12          # dedicated mode: two live artifact objects on the one file
        data, ops, have = [], [], []            # `have`: keys the generator believes are present (bias only)
        acting, pref = (self._acting(rng) if rng.random() < 0.45 else ([], None))
        state = {"pref": pref}                  # index level name the acting artifact's row term addresses (bias only)

        def D(spec):
            data.append(spec)
            return len(data) - 1

        def absent():
            c = [k for k in pool if k not in have]
            return rng.choice(c) if c else rng.choice(pool)

        def present():
            return rng.choice(have) if have else rng.choice(pool)

        def G():
            return self._good(rng, state["pref"])

        def reopen_op():
            r = rng.random()
            if r < 0.4:
                t, c = [], None
            elif r < 0.85:
                t, c = self._acting(rng)
            else:
                t, c = self._terms(rng), state["pref"]        # any terms, possibly two draw terms (the constructor refuses)
            state["pref"] = c
            return ["reopen", t]

        def do_write(k=None):
            k = k or absent()
            ops.append(["write", k, D(G())])
            if k not in have:
                have.append(k)

        n_ops = rng.choice([5, 6, 7, 8, 9, 10, 10, 11, 12, 12, 13, 14, 15, 16, 18, 20, 22, 25])
        do_write()
        while len(ops) < n_ops:
            r = rng.random()
            if two_live and r < 0.15:
                # the other live artifact acts: mostly it only reads (stale cache / key list), sometimes it writes too
                ops.append(["switch", self._acting(rng)[0] if rng.random() < 0.4 else []])
                k = present()
                ops += [["load", k]] + ([["replace", k, D(G())]] if rng.random() < 0.35 else []) + [["load", k]]
                if rng.random() < 0.6:
                    ops += [["switch", []], ["load", k]]
            elif r < 0.20:
                do_write()
            elif r < 0.32:
                ops.append(["load", present()])
            elif r < 0.40:
                k = present()
                ops.append(["remove", k])
                if k in have:
                    have.remove(k)
            elif r < 0.48:
                ops.append(["replace", present(), D(G())])
            elif r < 0.52:
                ops.append(["clear"] if rng.random() < 0.6 else ["mutate-keys", rng.choice(["remove-ks", "ghost", "clear", "reverse"])])
                if two_live:
                    ops.append(["switch", self._acting(rng)[0] if rng.random() < 0.4 else []])
            elif r < 0.57:
                ops.append(reopen_op())
            elif r < 0.66:
                ops.append(["fload", present() if rng.random() < 0.9 else absent(), self._terms(rng)])
            elif r < 0.78:     # scenarios in which one mechanism is the only thing between the code and a violation
                k = present()
                s = rng.choice([0, 1, 2, 3, 4, 5, 5])
                if s == 5:     # what the acting artifact's filter terms hide must survive a refused replace
                    k2 = absent()
                    if state["pref"] is None:
                        t, c = self._acting(rng)
                        state["pref"] = c
                        ops.append(["reopen", t])
                    bad = (D({"t": "zerorow", "v": rng.choice(ZEROROW)}) if rng.random() < 0.5
                           else D({"t": "badframe", "v": rng.choice(BADFRAME)}))
                    ops += [["write", k2, D(self._frame(rng, state["pref"]))], ["replace", k2, bad], ["load", k2]]
                    if rng.random() < 0.5:
                        ops += [["clear"], ["load", k2]]
                    else:
                        ops.append(reopen_op())
                        ops.append(["load", k2])
                    if k2 not in have:
                        have.append(k2)
                elif s == 0:
                    ops += [["load", k], ["replace", k, D(G())], ["load", k]]
                elif s == 1:
                    ops += [["load", k], ["remove", k], ["write", k, D(G())], ["load", k]]
                    if k not in have:
                        have.append(k)
                elif s == 2:
                    k2 = absent()
                    ops += [["write", k2, D(G())], reopen_op(), ["load", k2]]
                    if k2 not in have:
                        have.append(k2)
                elif s == 3:
                    k2 = absent()
                    ops += [["write", k2, D({"t": "unser", "v": rng.choice(UNSER)})],
                            ["write", k2, D(G())]]
                    if k2 not in have:
                        have.append(k2)
                else:
                    ops += [["remove", k], reopen_op(), ["write", k, D(G())]]
                    if k not in have:
                        have.append(k)
            else:              # the stream of operations that must be refused
                s = rng.randint(0, 15)
                if s == 0:
                    ops.append(["write", present(), D(G())])                      # duplicate write
                elif s == 1:
                    ops.append(["remove", absent()])
                elif s == 2:
                    ops.append(["replace", absent(), D(G())])
                elif s == 3:
                    ops.append(["load", absent()])
                elif s == 4:
                    ops.append(["write", absent(), None])
                elif s == 5:
                    ops.append(["replace", present(), None])
                elif s == 6:
                    ops.append(["write", rng.choice(MALFORMED), D(G())])
                elif s == 7:
                    ops.append([rng.choice(["remove", "load"]), rng.choice(MALFORMED)])
                elif s == 8:
                    ops.append(["replace", rng.choice(MALFORMED), D(G())])
                elif s == 9:
                    ops.append(["write", absent(), D({"t": "unser", "v": rng.choice(UNSER)})])
                elif s == 10:
                    ops.append(["replace", present(), D({"t": "unser", "v": rng.choice(UNSER)})])
                elif s == 11:
                    ops.append(["write", absent(), D({"t": "zerorow", "v": rng.choice(ZEROROW)})])
                elif s == 12:      # a pandas value the HDF layer refuses must not cost the key its data
                    k = present()
                    bad = (D({"t": "zerorow", "v": rng.choice(ZEROROW)}) if rng.random() < 0.5
                           else D({"t": "badframe", "v": rng.choice(BADFRAME)}))
                    ops += [["replace", k, bad], ["load", k]]
                elif s == 13:      # ... nor leave anything behind that blocks the key
                    k = absent()
                    ops += [["write", k, D({"t": "badframe", "v": rng.choice(BADFRAME)})],
                            ["write", k, D({"t": "json", "v": self._json(rng)})]]
                    if k not in have:
                        have.append(k)
                elif s == 14:      # the bookkeeping key is not the user's
                    ops.append(["remove", KS] if rng.random() < 0.5 else ["replace", KS, D(G())])
                else:
                    ops.append(["write", KS, D(G())] if rng.random() < 0.5 else ["load", KS])
                if rng.random() < 0.45:                 # … and the same operation again, verbatim (same key, same value)
                    ops.append(list(ops[-1]))
        case = {"probe": rng.choice(["self", "fresh"]), "terms": acting, "data": data, "ops": ops}
        if rng.random() < 0.5:
            case["pathobj"] = True        # the constructor is given a pathlib.Path
        if rng.random() < 0.15:
            case["noise"] = True          # another artifact with other filter terms was used before in this process and stays alive
        if tier == "thorough" or rng.random() < 0.2:
            case["fullobs"] = True        # observe from scratch after every operation (no re-use while the file's bytes are unchanged)
        return case

    def boundary(self):
        J = lambda v: {"t": "json", "v": v}                                    # noqa: E731
        F = {"t": "frame", "names": ["i", "j"], "index": [[1, 5], [2, 6], [3, 5]],
             "cols": [["value", [1.5, 2.5, 3.5]], ["draw_0", [1, 2, 3]], ["draw_1", [4, 5, 6]], ["name", ["p", "q", "r"]]]}
        F1 = {"t": "frame", "names": ["i"], "index": [[5], [6], [7]], "cols": [["value", [1.0, 2.0, 3.0]]]}
        E = {"t": "frame", "names": ["i", "f"], "index": [[1, 0.25], [2, 1.25]], "cols": []}
        E1 = {"t": "frame", "names": ["year"], "index": [[3], [4], [5]], "cols": []}
        S = {"t": "series", "names": ["i", "s"], "index": [[1, "u"], [2, "v"], [4, "u"]], "name": "value", "values": [1.0, 2.0, 3.0]}
        U = {"t": "unser", "v": "set"}
        Z = {"t": "zerorow", "v": "df"}
        B = {"t": "badframe", "v": "sets"}
        out = []
        # every refusal kind on separated keys (JSON only: cheap), both probe modes
        JD = J({"a": [1, 2, {"b": None}], "c": "x", "d": 1.5, "e": True})
        for mode in ("self", "fresh"):
            out.append({"probe": mode, "data": [JD, J([1]), U, Z, J("s")],
                        "ops": [["write", "x.y", 0], ["write", "x.y", 1], ["write", "t.u", None], ["write", "t", 1], ["write", "a.b.c.d", 1],
                                ["write", "a..b", 1], ["write", "", 1], ["write", "t.u", 2], ["write", "t.u", 1], ["remove", "n.o"],
                                ["replace", "n.o", 1], ["load", "n.o"], ["replace", "x.y", None], ["replace", "x.y", 2], ["write", "z.z", 3],
                                ["remove", "a"], ["load", ""], ["replace", "a.b.", 1], ["load", "x.y"], ["load", KS], ["write", KS, 1],
                                ["remove", "x.y"], ["write", "x.y", 4], ["load", "x.y"], ["reopen", []], ["load", "x.y"]]})
        # every data shape: write, reopen, load, replace by another shape, clear, load, remove, write again
        for mode, shapes in (("self", [F, E, S]), ("fresh", [F1, E1, JD])):
            ops = []
            for j, _ in enumerate(shapes):
                k = ["p.q.r", "p.q.s", "m.n"][j]
                ops += [["write", k, j], ["load", k]]
            ops += [["reopen", []], ["load", "p.q.r"], ["load", "m.n"], ["replace", "p.q.r", 1], ["load", "p.q.r"], ["clear"], ["load", "p.q.r"],
                    ["remove", "p.q.s"], ["load", "p.q.s"], ["write", "p.q.s", 2], ["load", "p.q.s"]]
            out.append({"probe": mode, "data": shapes, "ops": ops})
        # stale cache candidates: load, replace / remove + write, load again
        out.append({"probe": "fresh", "data": [J([1]), J([2]), F, F1],
                    "ops": [["write", "c.d", 0], ["load", "c.d"], ["replace", "c.d", 1], ["load", "c.d"], ["remove", "c.d"],
                            ["write", "c.d", 2], ["load", "c.d"], ["replace", "c.d", 3], ["load", "c.d"], ["clear"], ["load", "c.d"]]})
        # filter terms: present / absent columns, compound terms, draw selections, constructor refusals
        T = lambda c, o, v: ["atom", c, o, v]                                   # noqa: E731
        tsets = ([], [T("i", "gt", 1)], [T("i", "gt", 1), T("j", "eq", 5)], [["and", T("i", "gt", 1), T("zz", "eq", 5)]],
                 [["or", T("i", "eq", 1), T("j", "eq", 6)]], [T("zz", "eq", 0)], [T("value", "ge", 2)], [T("index", "ge", 1)],
                 [T("year", "ne", 4)], [["draws", [0], "eq"]], [T("i", "le", 2), ["draws", [0, 1], "in"]], [["draws", [1], "eq1"]],
                 [["draws", [0], "eq"], ["draws", [1], "eq"]], [T("i", "lt", -1)])
        for k, spec in (("f.multi", F), ("f.single", F1), ("f.empty", E), ("f.series.x", S), ("f.json", J({"k": 1})), ("f.empty1", E1)):
            out.append({"probe": "fresh", "data": [spec],
                        "ops": [["write", k, 0]] + [["fload", k, list(ts)] for ts in tsets] + [["fload", "f.none", [T("i", "gt", 1)]]]})
        # a float column compared strictly with 0 (F24, repaired: numpy.seterr(all="raise") + PyTables nextafter(0.0, -1))
        SF = {"t": "series", "names": ["j", "f"], "index": [[6, 2.75], [4, 2.5], [7, 3.0]], "name": "value", "values": [1.0, 3.0, 3.0]}
        out.append({"probe": "fresh", "data": [SF],
                    "ops": [["write", "f.z", 0], ["fload", "f.z", [T("value", "le", 0)]], ["fload", "f.z", [T("value", "lt", 0)]],
                            ["fload", "f.z", [T("value", "gt", 0)]], ["fload", "f.z", [T("j", "gt", 0)]], ["fload", "f.z", [T("value", "gt", 1)]]]})
        # F29 (recorded finding `draw-filter-series-name`): a stored Series under a draw filter that does not name it
        SR = {"t": "series", "names": ["i"], "index": [[1], [2]], "name": "rate", "values": [1.5, 2.5]}
        SN = {"t": "series", "names": [None], "index": [[0], [1]], "default_index": True, "name": None, "values": [3, 4]}
        SD = {"t": "series", "names": ["i"], "index": [[1], [2]], "name": "draw_1", "values": [1.5, 2.5]}
        out.append({"probe": "self", "terms": [["draws", [1], "eq"]], "data": [SR, SN, SD, S],
                    "ops": [["write", "s.rate", 0], ["write", "s.unnamed", 1], ["write", "s.draw", 2], ["write", "s.value", 3], ["load", "s.rate"],
                            ["load", "s.draw"], ["fload", "s.unnamed", [["draws", [0, 1], "in"]]], ["reopen", []], ["load", "s.rate"], ["load", "s.unnamed"]]})
        # legal keys with unusual characters (blanks: F28) and keys with "/" (malformed: F27), JSON and pandas values
        out.append({"probe": "fresh", "terms": [], "data": [J([1]), F1, J("x")],
                    "ops": [["write", "k l.m n", 0], ["write", "a b.c d.e f", 1], ["write", " lead.trail ", 2], ["write", "Ä-1.ü!", 1], ["load", "a b.c d.e f"],
                            ["write", "p/q.r", 0], ["write", "p/q.s", 1], ["write", "a.b/c", 1], ["remove", "p/q.r"], ["replace", "a.b/c", 0], ["load", "p/q.s"],
                            ["reopen", []], ["load", "k l.m n"], ["remove", "a b.c d.e f"], ["replace", " lead.trail ", 1], ["load", " lead.trail "]]})
        # F12: nested two-/three-part keys (recorded finding `nested-key-paths`)
        out.append({"probe": "fresh", "data": [J([2]), F1, J([3])],
                    "ops": [["write", "a.b.c", 0], ["write", "a.b", 1], ["load", "a.b.c"], ["remove", "a.b.c"]]})
        out.append({"probe": "self", "data": [F1, J([2]), F, J([5])],
                    "ops": [["write", "a.b", 0], ["write", "a.b.c", 1], ["write", "a.b.d", 2], ["load", "a.b"], ["load", "a.b.c"],
                            ["remove", "a.b"], ["load", "a.b.c"], ["replace", "a.b.d", 3]]})
        out.append({"probe": "fresh", "data": [J([1]), J([2]), F1],
                    "ops": [["write", "a.b", 0], ["write", "a.b.c", 1], ["write", "a.b.c", 2], ["remove", "a.b"], ["write", "a.b.c", 1],
                            ["write", "a.b", 0], ["remove", "a.b.c"], ["write", "a.b", 0], ["write", "a.b", 2],
                            ["write", "metadata.keyspace.x", 0], ["write", "metadata.x", 0]]})
        # pandas values the HDF layer refuses: the key keeps its data, nothing is left behind (F19, repaired)
        out.append({"probe": "fresh", "data": [J([1]), Z, B, J([2]), F1],
                    "ops": [["write", "u.v", 0], ["write", "u.w", 1], ["replace", "u.v", 1], ["write", "u.v", 3], ["write", "u.z", 2],
                            ["write", "u.z", 3], ["write", "u.z", 4], ["replace", "u.z", 2], ["write", "u.q.r", 2], ["write", "u.q.r", 0]]})
        # the bookkeeping key as a target: refused (F20, repaired)
        out.append({"probe": "fresh", "data": [J([1]), J([2])],
                    "ops": [["write", "k.l", 0], ["replace", KS, 1], ["load", KS], ["write", "k.m", 1], ["remove", KS], ["write", "k.n", 1],
                            ["remove", "k.l"], ["reopen", []], ["write", KS, 0], ["reopen", []]]})
        out.append({"probe": "self", "data": [J([1])], "ops": [["remove", KS], ["write", "k.l", 0], ["reopen", []]]})
        # operations PERFORMED by artifacts opened with filter terms: what the terms hide must not be touched, every
        # refusal kind under terms; observations stay unfiltered (second artifact, file scan) + the filtered view
        for mode, terms, k in (("self", [T("i", "ge", 2)], "p.q.r"), ("fresh", [["draws", [1], "eq"]], "d.w"),
                               ("fresh", [T("j", "eq", 5), ["draws", [0], "in"]], "p.q"), ("self", [T("zz", "eq", 1)], "n.w")):
            out.append({"probe": mode, "terms": terms, "data": [F, Z, B, J([1]), U, F1, S],
                        "ops": [["write", k, 0], ["load", k], ["replace", k, 1], ["load", k], ["replace", k, 2], ["clear"], ["load", k],
                                ["write", k, 5], ["write", "t.u", None], ["write", "t", 3], ["write", "t.u", 4], ["write", "t.u", 1], ["write", "t.u", 2],
                                ["remove", "n.o"], ["replace", "n.o", 3], ["replace", k, None], ["replace", k, 4], ["remove", KS], ["load", "n.o"],
                                ["reopen", []], ["load", k], ["reopen", [T("j", "eq", 5)]], ["load", k], ["replace", k, 1], ["replace", k, 6], ["load", k],
                                ["reopen", [["draws", [0], "eq"], ["draws", [1], "eq"]]], ["remove", k], ["write", k, 5], ["reopen", terms], ["load", k]]})
        for c in out:
            if not any(op[0] == "fload" for op in c["ops"]):
                c["fullobs"] = True
        # lessons 12-13: every operation X, then Y through the OTHER live artifact (filtered / unfiltered / draw filter), then X
        # again verbatim; the caller mutating a loaded object in place; the same key as frame -> list -> Series -> frame
        FI = {"t": "frame", "names": ["i", "j"], "index": [[1, 5], [2, 6], [3, 5]], "cols": [["value", [1, 2, 3]], ["draw_0", [4, 5, 6]]]}
        FF = {"t": "frame", "names": ["i", "j"], "index": [[1, 5], [2, 6], [3, 5]], "cols": [["value", [1.5, 2.5, 3.5]], ["draw_0", [4, 5, 6]]], "dtypes": {"value": "float32"}}
        FS = {"t": "frame", "names": ["i", "j"], "index": [[1, 5], [2, 6], [3, 5]], "cols": [["value", ["1", "2", "3"]]]}
        LJ = J([[1, 5], [2, 6], [3, 5]])
        XS = (["load", "r.k"], ["write", "r.k", 1], ["replace", "r.k", 1], ["replace", "r.k", 6], ["clear"], ["remove", "r.k"],
              ["write", "r.k", 2], ["fload", "r.k", [T("j", "eq", 5)]], ["replace", "r.k", 3], ["replace", "r.k", 4], ["replace", "r.k", 0])
        for cfg, (mode, t0, t1) in enumerate((("self", [], [T("i", "ge", 2)]), ("fresh", [T("i", "ge", 2)], []), ("self", [["draws", [0], "eq"]], []),
                                              ("fresh", [], [["draws", [1], "eq"]]))):
            ops = [["write", "r.k", 0], ["load", "r.k"]]
            first = True
            YS = ([["load", "r.k"]], [["replace", "r.k", 5]], [["remove", "r.k"], ["write", "r.k", 0]], [["clear"], ["load", "r.k"]])
            for xi, X in enumerate(XS[cfg % 2::2]):      # half of the operations per configuration and half of the intervening ones per
                for Y in YS[(xi + cfg // 2) % 2::2]:     # operation (cost); over the four configurations every pair occurs
                    if (X[0], Y[0][0]) in (("clear", "load"), ("fload", "remove")):
                        continue
                    ops += [list(X), ["switch", t1 if first else []]] + [list(y) for y in Y] + [["switch", []], list(X)]
                    first = False
            out.append({"probe": mode, "terms": t0, "data": [FI, FF, S, LJ, FS, J({"k": 1}), Z], "ops": ops})
        MJ, MF = J([1, 2]), F1
        out.append({"probe": "self", "terms": [], "data": [MJ, mutated_spec(MJ), MF, mutated_spec(MF), Z, J({"a": 1}), mutated_spec(J({"a": 1}))],
                    "ops": [["write", "m.j", 0], ["write", "m.f", 2], ["write", "m.d", 5], ["mutate", "m.j", 0, 1], ["load", "m.j"], ["mutate", "m.f", 2, 3],
                            ["load", "m.f"], ["mutate", "m.d", 5, 6], ["replace", "m.f", 4], ["load", "m.f"], ["replace", "m.j", None], ["load", "m.j"],
                            ["mutate", "m.j", 0, 1], ["clear"], ["load", "m.j"], ["load", "m.d"], ["mutate", "m.f", 2, 3], ["replace", "m.f", 4],
                            ["reopen", []], ["load", "m.f"], ["mutate", "m.f", 2, 3], ["switch", []], ["load", "m.f"], ["replace", "m.f", 4], ["switch", []],
                            ["load", "m.f"], ["replace", "m.f", 4], ["load", "m.f"], ["restore", "m.j", 0, None], ["load", "m.j"], ["restore", "m.j", 0, 1],
                            ["load", "m.j"], ["restore", "m.f", 2, 3], ["reopen", []], ["load", "m.f"], ["restore", "m.d", 5, None], ["restore", "m.d", 5, 6]]})
        # every refused operation, then the same operation again
        rf = [["write", "q.a", 0], ["write", "q.a", 1], ["write", "q.b", None], ["write", "bad", 1], ["write", "p/q.r", 1], ["write", "q.b", 2], ["write", "q.b", 3],
              ["write", "q.b", 4], ["remove", "q.z"], ["replace", "q.z", 1], ["load", "q.z"], ["replace", "q.a", None], ["replace", "q.a", 2], ["replace", "q.a", 3],
              ["replace", "q.a", 4], ["remove", KS], ["replace", KS, 1], ["write", KS, 1], ["reopen", [["draws", [0], "eq"], ["draws", [1], "eq"]]],
              ["fload", "q.a", [["draws", [], "in"]]]]
        out.append({"probe": "self", "terms": [T("i", "ge", 2)], "data": [FI, J([1]), U, Z, B],
                    "ops": [rf[0]] + [list(o) for x in rf[1:] for o in (x, x)] + [["load", "q.a"]]})
        # F36 (repaired): the caller edits the list art.keys returned, then every kind of operation
        out.append({"probe": "self", "terms": [], "data": [J([1]), J([2]), F1, Z],
                    "ops": [["write", "a.b", 0], ["mutate-keys", "remove-ks"], ["write", "a.c", 1], ["reopen", []], ["mutate-keys", "clear"], ["write", "a.d", 2],
                            ["load", "a.b"], ["mutate-keys", "ghost"], ["remove", "ghost.key"], ["load", "ghost.key"], ["remove", "a.c"], ["mutate-keys", "reverse"],
                            ["replace", "a.b", 2], ["mutate-keys", "clear"], ["replace", "a.b", 3], ["mutate-keys", "remove-ks"], ["remove", KS], ["switch", []],
                            ["mutate-keys", "clear"], ["write", "a.e", 0], ["switch", []], ["load", "a.d"]]})
        # the ArtifactManager path in a real simulation: draw 0 (falsy), no draw, a term on a present / an absent column
        for k, (draw, term, style) in enumerate(((0, ["year", "ge", 2], "tight"), (None, ["sex", "eq", "m"], "spaced"),
                                                 (2, ["location", "eq", "x"], "spaced"), (1, None, "spaced"))):
            c = self._gen_sim(random.Random(100 + k))
            c["config"] = {"draw": draw, "term": term, "style": style}
            out.append(c)
        return out

    def shrink(self, case):
        if case.get("kind") == "sim":
            for j in range(len(case["loads"]) - 1, -1, -1):
                if len(case["loads"]) > 1:
                    yield dict(case, loads=case["loads"][:j] + case["loads"][j + 1:])
            return
        ops = case["ops"]
        for n in (len(ops) // 4, len(ops) // 2, 3 * len(ops) // 4):      # truncations first: most failures are early
            if 0 < n < len(ops):
                yield dict(case, ops=ops[:n])
        for i in range(len(ops) - 1, -1, -1):
            yield dict(case, ops=ops[:i] + ops[i + 1:])
        for i, op in enumerate(ops):
            if op[0] == "fload" and len(op[2]) > 1:
                for j in range(len(op[2])):
                    yield dict(case, ops=ops[:i] + [["fload", op[1], op[2][:j] + op[2][j + 1:]]] + ops[i + 1:])
        if case.get("terms"):
            yield dict(case, terms=[])
            for j in range(len(case["terms"])):
                if len(case["terms"]) > 1:
                    yield dict(case, terms=case["terms"][:j] + case["terms"][j + 1:])
        for i, op in enumerate(ops):
            if op[0] == "reopen" and op[1]:
                yield dict(case, ops=ops[:i] + [["reopen", []]] + ops[i + 1:])
        if case["probe"] == "self":
            yield dict(case, probe="fresh")

    # ------------------------------------------------------------------ implementation
    def run_impl(self, case):
        return _run_sim(case) if case.get("kind") == "sim" else _run(case)

    # ------------------------------------------------------------------ model
    @staticmethod
    def _terms_tok(terms, vocab):
        return ";".join(",".join(rpn(t, vocab)) for t in terms) if terms else "-"

    def model_lines(self, case, obs):
        if case.get("kind") == "sim":
            return self._sim_lines(case, obs)
        L = []
        vocab = Vocab()
        lst = lambda xs: ",".join(xs) if xs else "-"                            # noqa: E731
        for i, s in enumerate(case["data"]):
            if s["t"] == "json":
                L.append(f"data {i} json")
            elif s["t"] in ("frame", "series"):
                qc, qr, cols, emp, ser = table_view(s, vocab)
                rows = ";".join(",".join(str(v) for v in r) for r in qr) if qr and qc else "-"
                L.append(f"data {i} table {lst(qc)} {rows} {lst(['<None>' if c is None else c for c in cols])} {1 if emp else 0} {1 if ser else 0}")
            else:
                L.append(f"data {i} {s['t']}")
        if case.get("terms"):
            L.append(f"op reopen {self._terms_tok(case['terms'], vocab)}")     # the acting artifact is created with filter terms
        L.append(f"obs {case['probe']}")
        for op in case["ops"]:
            k = op[0]
            if k in ("write", "replace"):
                L.append(f"op {k} k={enc_key(op[1])} {'none' if op[2] is None else op[2]}")
            elif k in ("load", "remove"):
                L.append(f"op {k} k={enc_key(op[1])}")
            elif k == "mutate":
                mut = obs["ops"][len([x for x in L if x.startswith("obs ")]) - 1]["out"] == "mutated"
                L.append(f"op mutate k={enc_key(op[1])} {op[3]}" if mut else f"op load k={enc_key(op[1])}")
            elif k == "restore":
                res = obs["ops"][len([x for x in L if x.startswith("obs ")]) - 1]
                L.append(f"op load k={enc_key(op[1])}")
                if res["out"] == "restored" or (res["out"] == "err" and res.get("after_load")):
                    L[-1] = f"op restore k={enc_key(op[1])} {op[2] if op[3] is None else op[3]}"
            elif k == "mutate-keys":
                L.append(f"op mutkeys {op[1]}")
            elif k == "clear":
                L.append("op clear")
            elif k in ("reopen", "switch"):
                L.append(f"op {k} {self._terms_tok(op[1], vocab)}")
            else:
                L.append(f"fload k={enc_key(op[1])} {self._terms_tok(op[2], vocab)}")
            L.append(f"obs {case['probe']}")
        return L

    def _model_view(self, s, data, first):
        """the model's rendering of what an artifact hands out, in the harness' form"""
        if s in ("err", "nofresh"):
            return s
        if s.startswith("keys:"):
            return ["data", ["keys", [dec_key(k) for k in s[5:].split("+")]]]
        if s.startswith("blob:"):
            return ["data", ["d", first[int(s[5:])]]]
        if s.startswith("tbl:") and s.count(":") == 3:
            _, d, r, c = s.split(":")
            rows = [] if r[1:] == "-" else [int(x) for x in r[1:].split("+")]
            cols = [] if c[1:] == "-" else c[1:].split("+")
            return ["filtered", self._project(spec_canon(data[int(d)]), rows, cols)]
        return ["model-says", s]

    def _parse_obs(self, reply, data, first):
        f = dict(x.split("=", 1) for x in reply.split(" "))
        lst = lambda s: [] if s == "-" else s.split(",")                        # noqa: E731
        keys = lambda s: [dec_key(k) for k in lst(s)]                           # noqa: E731

        def node(s):
            if s in ("err", "nofresh"):
                return s
            if s.startswith("keys:"):
                return ["keys", [dec_key(k) for k in s[5:].split("+")]]
            return ["d", first[int(s.split(":")[1])]]
        loads = {}
        for e in lst(f["loads"]):
            k, v = e.split("=", 1)
            loads[dec_key(k)] = node(v)
        selfv = None
        if f["self"] != "-":
            selfv = {}
            for e in lst(f["self"]):
                k, v = e.split("=", 1)
                selfv[dec_key(k)] = self._model_view(v, data, first)
        return {"keys": keys(f["keys"]), "file": sorted(keys(f["file"])), "groups": sorted(keys(f["groups"])),
                "fresh": "err" if f["fresh"] == "err" else keys(f["fresh"]), "loads": loads, "self": selfv}

    def compare(self, case, obs, replies):
        if case.get("kind") == "sim":
            return self._sim_compare(case, obs, replies)
        dis = []
        data = case["data"]
        first = first_ids(data)
        nd = len(data)
        for i, r in enumerate(replies[:nd]):
            if r != "ok":
                dis.append(f"data line #{i}: model says {r}")
        pos = nd
        if case.get("terms"):
            if replies[pos] != "ok":
                dis.append(f"creating the acting artifact with terms {case['terms']}: model says {replies[pos]}")
            pos += 1

        def cmp_obs(where, o, reply):
            m = self._parse_obs(reply, data, first)
            if case["probe"] == "self" and m["self"] is None:
                m["self"] = {}
            for fld in ("keys", "file", "groups", "fresh", "loads", "self"):
                if o[fld] != m[fld]:
                    dis.append(f"{where}: {fld}: impl {json.dumps(o[fld])[:300]} model {json.dumps(m[fld])[:300]}")
        cmp_obs("initial state", obs["init"], replies[pos])
        pos += 1
        for i, (op, rec) in enumerate(zip(case["ops"], obs["ops"])):
            r = replies[pos]
            where = f"op #{i} {op[:2]}"
            out = rec["out"]
            if out in ("ok", "err", "ctor-err", "mutated", "restored"):
                want = {"ok": "ok", "err": "rejected", "ctor-err": "ctor-err", "mutated": "ok", "restored": "ok"}[out]
                if r != want:
                    dis.append(f"{where}: impl {out} ({rec.get('exc')}) model {r}")
            else:
                mv = self._model_view(r[5:] if r.startswith("data ") else r, data, first)
                if mv != out:
                    dis.append(f"{where} {rec.get('terms', '')}: impl {json.dumps(out)[:300]} model {r}")
            cmp_obs(where + " state after", rec["obs"], replies[pos + 1])
            pos += 2
        return dis

    @staticmethod
    def _project(c, rows, cols):
        """canonical form of the table `c` restricted to row positions `rows` and value columns `cols`"""
        nidx = len(c["names"])
        if c["t"] == "series":
            return {"t": "series", "names": c["names"], "cols": c["cols"], "rows": [c["rows"][r] for r in rows]}
        ci = [c["cols"].index(x) for x in cols]
        return {"t": "frame", "names": c["names"], "cols": cols,
                "rows": [c["rows"][r][:nidx] + [c["rows"][r][nidx + j] for j in ci] for r in rows]}

    # ------------------------------------------------------------------ oracle (the property itself)
    def _sig(self, case, upto, key, base):
        """stable signature of a failure about `key` observed after op #upto (see module doc-comment)"""
        if key is not None and well_formed(key):
            hist = case["ops"][:upto + 1]
            touched = [op[1] for op in hist if op[0] in MUTATING and well_formed(op[1])] + [KS]
            if any(related(key, k2) for k2 in touched):
                return "nested-key-paths"
        return base

    def oracle(self, case, obs):
        if case.get("kind") == "sim":
            return self._sim_oracle(case, obs)
        fails = []
        data = case["data"]
        first = first_ids(data)
        canons = [spec_canon(s) for s in data]
        tol = obs.setdefault("_tolerated", [])       # tolerated classes that occurred (reported in the distribution)

        def fail(i, key, base, msg):
            fails.append({"sig": self._sig(case, i, key, base), "msg": f"op #{i} {case['ops'][i][:2] if i >= 0 else 'init'}: {msg}"})

        dirty = set()       # (slot, key): the caller mutated, in place, the object this artifact's cache holds for the key

        def handed_out(i, k, terms, got, exp, ever, stale, slot=None):
            """what an artifact with `terms` hands out for key k: a view of what is stored (of what was stored at some
            time, for a live artifact whose key list and cache are older than the last mutation by the other one)"""
            if (slot, k) in dirty and got != "err":
                if case.get("strict"):      # candidate `cache-aliases-returned-object`: replay cases only
                    if k in exp and got != ["data", ["d", exp[k]]] and not (got[0] == "filtered" and got[1] == canons[exp[k]]):
                        fails.append({"sig": "cache-aliases-returned-object",
                                      "msg": f"op #{i}: after the caller mutated the object load({k}) returned, load({k}) hands out the mutated object, not what was written"})
                else:
                    tol.append("caller-mutated-cache")
                return
            if got == "err":
                if not stale and k in exp and data[exp[k]]["t"] != "json" and expected_view(data[exp[k]], terms) == "raises":
                    # recorded finding F29: a stored Series cannot be loaded under a draw filter that does not name it
                    fails.append({"sig": "draw-filter-series-name",
                                  "msg": f"op #{i}: {k} (a Series named {data[exp[k]]['name']!r}) is reported but cannot be loaded through an "
                                         f"artifact with terms {[render_term(t) for t in terms]}"})
                elif not stale:
                    fail(i, k, "listed-key-not-loadable", f"{k} is reported but load through the artifact (terms {terms}) raises")
                return
            if not stale:
                if k in exp:
                    self._check_filter(i, k, terms, got, canons[exp[k]], exp[k], fail, data[exp[k]])
                return
            for did in ever.get(k, []):          # stale: any value ever written under k
                probe = []
                self._check_filter(i, k, terms, got, canons[did], did, lambda *a: probe.append(a), data[did])
                if not probe:
                    return
            fail(i, k, "invented-data", f"{k}: a live artifact hands out {json.dumps(got)[:200]}, which was never written under that key")

        def check_state(i, o, exp, terms, stale, corrupt, ever, slot=None):
            if not o.get("forms_ok", True):
                fail(i, None, "call-forms-disagree", "iter(art) / `in` / repr(art) disagree with art.keys")
            if corrupt:          # two live artifacts both wrote: only "no invented data" is claimed
                for k, got in o["loads"].items():
                    if isinstance(got, list) and got[0] == "d" and got[1] not in ever.get(k, []):
                        fail(i, k, "invented-data", f"{k} loads data {got[1]}, never written under that key")
                return
            ks = o["fresh"] if stale and o["fresh"] != "err" else o["keys"]      # a stale live artifact reports an old key list
            user = [k for k in ks if k != KS]
            if ks.count(KS) != 1 or len(set(ks)) != len(ks):
                fail(i, None, "keys-malformed", f"keys {ks}")
            for k in sorted(set(user) ^ set(exp)):
                fail(i, k, "keys-vs-written", f"{k}: reported={k in user} but written={k in exp}")
            if o["fresh"] == "err":
                fail(i, None, "fresh-open-fails", f"a second Artifact on the file raises {o.get('fresh_exc')}")
            else:
                for k in sorted(set(ks) ^ set(o["fresh"])):
                    fail(i, k, "fresh-keys-differ", f"{k}: artifact={k in ks} fresh artifact={k in o['fresh']}")
                if not (set(ks) ^ set(o["fresh"])) and ks != o["fresh"]:
                    fail(i, None, "fresh-keys-order", f"artifact {ks} fresh {o['fresh']}")
            for k in sorted(set(ks) ^ set(o["file"])):
                fail(i, k, "file-keys-differ", f"{k}: artifact={k in ks} hdf.get_keys={k in o['file']}")
            for k in user:
                got = o["loads"].get(k)
                if got == "nofresh":
                    continue
                if got == "err" or got is None:
                    fail(i, k, "listed-key-not-loadable", f"{k} is reported but load raises")
                elif k in exp and got != ["d", exp[k]]:
                    fail(i, k, "load-differs-from-written", f"{k}: loads {got}, last written data {exp[k]}")
            for k, got in (o.get("self") or {}).items():      # the same keys through the acting artifact and its filter terms
                handed_out(i, k, terms, got, exp, ever, stale, slot)

        exp = {}                    # key -> data id (first equal id): what the property says is stored
        ever = {}                   # key -> every data id a write / replace tried to store under it
        terms_of = {0: list(case.get("terms") or [])}      # filter terms of the live artifacts (slot 0 acts first)
        fresh_view = {0: True}      # slot -> its key list and cache have seen every mutation so far
        act, corrupt = 0, False
        check_state(-1, obs["init"], exp, terms_of[act], False, False, ever, act)
        prev = obs["init"]
        for i, (op, rec) in enumerate(zip(case["ops"], obs["ops"])):
            kind, out, o = op[0], rec["out"], rec["obs"]
            if kind == "restore":       # load, then replace with the very object that was loaded (mutated in place or not)
                if out == "restored" or rec.get("after_load"):
                    kind, op, out = "replace", ["replace", op[1], op[2] if op[3] is None else op[3]], ("ok" if out == "restored" else "err")
                else:
                    kind = "load"
            key = op[1] if len(op) > 1 and kind not in ("reopen", "switch", "mutate-keys") else None
            stale = not fresh_view[act]
            cur_terms = terms_of[act]
            must_reject = None      # None: no requirement
            new_exp = dict(exp)
            if kind in ("write", "replace"):
                spec = None if op[2] is None else data[op[2]]
                storable = spec is not None and spec["t"] in STORABLE
                if storable:
                    ever.setdefault(key, []).append(first[op[2]])
                if kind == "write":
                    must_reject = key in exp or key == KS or not well_formed(key) or not storable
                else:
                    must_reject = key not in exp or not storable
                if not must_reject:
                    new_exp.pop(key, None)
                    new_exp[key] = first[op[2]]
            elif kind == "remove":
                must_reject = key not in exp
                if not must_reject:
                    new_exp.pop(key)
            elif kind in ("load", "fload", "mutate"):
                must_reject = key not in exp and key != KS
            accepted = out not in ("err", "ctor-err")
            judged = not stale and not corrupt         # the property speaks about an artifact that has seen the whole history
            if kind in MUTATING and judged:
                if must_reject and accepted:
                    fail(i, key, "accepts-invalid-op", f"{kind} accepted although it must be refused")
                if not must_reject and not accepted:
                    fail(i, key, "valid-op-refused", f"valid {kind} refused with {rec.get('exc')}")
            if kind in ("load", "mutate") and key != KS and not corrupt:
                if must_reject and accepted and judged:
                    fail(i, key, "accepts-invalid-op", f"load of a key never written returns {str(out)[:80]}")
                elif out == "mutated":
                    dirty.add((act, key))
                elif accepted or (judged and not must_reject):
                    handed_out(i, key, cur_terms, out if accepted else "err", exp, ever, stale, act)
            if kind == "fload" and out != "ctor-err" and not corrupt:      # a third, freshly opened artifact: never stale
                if must_reject and accepted:
                    fail(i, key, "accepts-invalid-op", f"filtered load of a key never written returns {str(out)[:80]}")
                elif not must_reject and key != KS:
                    handed_out(i, key, op[2], out if accepted else "err", exp, ever, False)
            if kind in ("fload", "reopen", "switch") and out in ("err", "ctor-err") and draw_columns(op[-1]) != "refused" \
                    and not (kind == "fload" and (must_reject or out == "err")) and not corrupt:
                fail(i, key, "valid-op-refused", f"constructing an Artifact with terms {op[-1]} raises {rec.get('exc')}")
            if kind in ("fload", "reopen", "switch") and draw_columns(op[-1]) == "refused" and accepted \
                    and not (kind == "switch" and 1 in terms_of):
                fail(i, key, "accepts-invalid-op", f"an Artifact with terms {op[-1]} was constructed")
            n_before = len(fails)
            # refused operations, and operations that only read, leave artifact and file as they were
            if not accepted and not judged and kind in MUTATING and (self._changes(prev, o) or prev["groups"] != o["groups"]):
                # a live artifact with an OLD key list rewrote the key space before its operation failed (by design of the
                # in-memory key list; nothing is claimed for it) – from here on as after a write by a stale artifact
                corrupt = True
            elif not accepted or kind in ("load", "clear", "reopen", "fload", "switch", "mutate", "mutate-keys"):
                base = "refused-op-changed-state" if not accepted else "read-op-changed-state"
                what = f"{'refused ' if not accepted else ''}{kind}"
                # another artifact object (switch) or a re-read key list (reopen): the reported key list is not "state that changed"
                before = dict(prev, keys=o["keys"]) if kind in ("switch", "reopen") else prev
                for k, msg in self._changes(before, o).items():
                    if kind == "mutate-keys":     # F36: the list `keys` returns is the caller's own copy
                        fails.append({"sig": "keys-list-aliased", "msg": f"op #{i}: the caller edited the list art.keys returned ({op[1]}) and the artifact changed: {msg}"})
                    else:
                        fail(i, k, base, f"{what}: {msg}")
                if kind == "mutate-keys" and o["keys"] != prev["keys"]:
                    fails.append({"sig": "keys-list-aliased", "msg": f"op #{i}: the caller edited the list art.keys returned ({op[1]}); art.keys was {prev['keys']}, is {o['keys']}"})
                # bare groups: the parent group /type/name of a three-part key may be created by a refused write
                own = lambda g: key is not None and well_formed(key) and parts(g) != parts(key) and parts(key)[:len(parts(g))] == parts(g)   # noqa: E731
                g0, g1 = [g for g in prev["groups"] if not own(g)], [g for g in o["groups"] if not own(g)]
                if g0 != g1:
                    fail(i, key, base, f"{what}: bare groups of the file were {g0} now {g1}")
            if kind in MUTATING and accepted:
                if stale:
                    corrupt = True            # a live artifact with an old key list wrote: it persisted that list (documented; nothing claimed)
                for slot in fresh_view:
                    if slot != act:
                        fresh_view[slot] = False
                if judged and not must_reject:
                    exp = new_exp
            if kind in ("clear", "reopen") and accepted:
                dirty -= {x for x in dirty if x[0] == act}
            if kind in ("remove", "replace") and accepted:
                dirty.discard((act, key))
            if kind == "reopen" and accepted:
                terms_of[act] = list(op[1])
                fresh_view[act] = True
            if kind == "switch" and accepted:
                other = 1 - act
                if other not in terms_of:
                    terms_of[other] = list(op[1])
                    fresh_view[other] = True
                act = other
            check_state(i, o, exp, terms_of[act], not fresh_view[act], corrupt, ever, act)
            if not corrupt and (len(fails) > n_before or (kind in MUTATING and judged and accepted == bool(must_reject))):
                # adopt the observed state as the new baseline, so that one defect is reported where it happens
                # and what follows is judged on its own
                exp = {k: v[1] for k, v in o["loads"].items() if isinstance(v, list) and v[0] == "d"}
            prev = o
        return fails

    @staticmethod
    def _changes(prev, o) -> dict:
        """key -> what changed about it between two observations (None: something not tied to one key)"""
        ch = {}
        for fld, name in (("keys", "reported keys"), ("file", "hdf.get_keys"), ("fresh", "keys of a fresh artifact")):
            a, b = prev[fld], o[fld]
            if a == b:
                continue
            if isinstance(a, str) or isinstance(b, str):
                ch.setdefault(None, f"{name}: {a} -> {b}")
                continue
            for k in sorted(set(a) ^ set(b)):
                ch.setdefault(k, f"{name}: {k} {'appeared' if k in b else 'disappeared'}")
            if set(a) == set(b) and sorted(a) != sorted(b):
                ch.setdefault(None, f"{name}: a key is repeated: {a} -> {b}")
        for k in sorted(set(prev["loads"]) | set(o["loads"])):
            if prev["loads"].get(k) != o["loads"].get(k) and k in prev["loads"] and k in o["loads"]:
                ch.setdefault(k, f"load({k}): {prev['loads'].get(k)} -> {o['loads'].get(k)}")
        return ch

    def _check_filter(self, i, key, terms, out, full, did, fail, spec=None):
        """what an artifact with filter `terms` hands out for `key` against the stored value `full` (data id `did`)"""
        if spec is not None and spec["t"] != "json" and out[0] == "filtered":
            ev = expected_view(spec, terms)
            if ev == "raises":
                fail(i, key, "filter-wrong-rows", f"terms {terms}: a Series the draw selection does not name was handed out")
            elif self._project(full, ev[0], ev[1]) != out[1]:
                got = out[1]
                fail(i, key, "filter-wrong-rows" if terms else "load-differs-from-written",
                     f"terms {[render_term(t) for t in terms]}: handed out {len(got.get('rows', []))} rows, columns {got.get('cols')}; "
                     f"the terms select rows {ev[0]} and columns {ev[1]} of data {did}")
        if not terms:       # an unfiltered artifact must hand out exactly what is stored
            fail0 = fail
            fail = lambda i, k, base, msg: fail0(i, k, "load-differs-from-written", msg)   # noqa: E731
        if out[0] == "data":
            if full["t"] != "json" or out[1] != ["d", did]:
                fail(i, key, "load-differs-from-written" if not terms else "filter-changes-data", f"load returns {out[1]}, stored data {did}")
            return
        got = out[1]
        if full["t"] == "json" or got["t"] != full["t"] or got["names"] != full["names"]:
            fail(i, key, "filter-changes-data", f"filtered load returns a {got['t']} {got.get('names')}, stored {full['t']} {full.get('names')}")
            return
        nidx = len(full["names"])
        if full["t"] == "series":
            want_rows = full["rows"]
            if got["cols"] != full["cols"]:
                fail(i, key, "filter-changes-data", f"series name {got['cols']} vs {full['cols']}")
        else:
            if any(c not in full["cols"] for c in got["cols"]) or len(set(got["cols"])) != len(got["cols"]):
                fail(i, key, "filter-adds-columns", f"columns {got['cols']} of stored {full['cols']}")
                return
            ci = [full["cols"].index(c) for c in got["cols"]]
            want_rows = [r[:nidx] + [r[nidx + j] for j in ci] for r in full["rows"]]
        # rows returned must be a sub-list of the stored rows
        it = iter(want_rows)
        if not all(any(r == w for w in it) for r in got["rows"]):
            fail(i, key, "filter-not-a-restriction", f"terms {terms}: rows {got['rows']} are not a sub-list of the stored rows")
        plain = [t for t in terms if t[0] != "draws"]
        if all(term_cols(t) & NOWHERE for t in plain) and len(got["rows"]) != len(want_rows):
            fail(i, key, "absent-column-term-not-ignored", f"terms {terms} reference no existing column but {len(want_rows) - len(got['rows'])} rows were dropped")
        if not any(t[0] == "draws" for t in terms) and full["t"] == "frame" and got["cols"] != full["cols"]:
            fail(i, key, "filter-drops-columns", f"no draw term but columns {got['cols']} of {full['cols']}")

    # ------------------------------------------------------------------ the ArtifactManager path (kind "sim")
    def _gen_sim(self, rng):
        """an artifact with wide-on-draws tables, a long table, a Series and metadata; a simulation configured with a
        draw number (incl. 0 and None) and a filter term (present / absent column, with and without blanks, a
        compound one the manager refuses); builder.data.load with every call form of the column filters"""
        n = rng.randint(3, 6)
        years = [rng.randint(1, 4) for _ in range(n)]
        sexes = [rng.choice(["m", "f"]) for _ in range(n)]
        ages = [rng.randint(0, 8) / 2 for _ in range(n)]
        idx = {"names": ["year", "sex", "age"], "index": [[y, x, a] for y, x, a in zip(years, sexes, ages)]}
        if rng.random() < 0.4:
            idx["ldtypes"] = [None, "category", None]
        wide = dict({"t": "frame", "cols": [[f"draw_{k}", [rng.randint(0, 80) / 8 for _ in range(n)]] for k in range(3)]}, **idx)
        long_ = dict({"t": "frame", "cols": [["value", [rng.randint(0, 80) / 8 for _ in range(n)]]]
                      + ([["parameter", [rng.choice(["a", "b"]) for _ in range(n)]]] if rng.random() < 0.5 else [])}, **idx)
        flat = {"t": "frame", "names": ["year"], "index": [[y] for y in rng.sample(range(1, 9), 3)], "cols": [["draw_1", [1.5, 2.5, 3.5]], ["draw_0", [4, 5, 6]]]}
        ser = {"t": "series", "names": ["year", "sex"], "index": [[y, x] for y, x in zip(years, sexes)], "name": rng.choice(["value", "value", "rate"]),
               "values": [rng.randint(0, 9) for _ in range(n)]}
        meta = {"t": "json", "v": {"locations": ["here"], "n": 3}}
        data = [wide, long_, flat, ser, meta]
        writes = [["cause.c.incidence", 0], ["risk.exposure", 1], ["pop.structure", 2], ["cov.s.estimate", 3], ["metadata.locations", 4]]
        draw = rng.choice([None, 0, 0, 1, 2, 7])
        r = rng.random()
        term = None if r < 0.3 else ["year", rng.choice(["ge", "eq", "lt", "ne"]), rng.randint(1, 4)] if r < 0.6 else \
            ["sex", "eq", rng.choice(["m", "f"])] if r < 0.75 else ["age", "gt", rng.randint(0, 6) / 2] if r < 0.88 else ["location", "eq", "x"]
        cfg = {"draw": draw, "term": term, "style": rng.choice(["spaced", "tight"])}
        if term is not None and term[1] == "ne":
            cfg["style"] = "spaced"      # "year!=2" without blanks is not recognised by _config_filter and silently ignored (observation)
        if rng.random() < 0.07:
            cfg["raw_term"] = rng.choice(["year > 1 and sex == 'm'", "year > 1 & year < 4", "year == 1 | year == 2"])
        loads = []
        for k, _ in writes:
            r = rng.random()
            f = {}
            if r < 0.3:
                f = {"sex": rng.choice(["m", "f"])}
            elif r < 0.5:
                f = {"year": rng.sample(range(1, 5), rng.randint(1, 3))}
            elif r < 0.6:
                f = {"year": rng.randint(1, 4), "sex": [rng.choice(["m", "f"])]}
            elif r < 0.67:
                f = {"nowhere": 1}
            elif r < 0.72:
                f = {"age": ages[0]}
            loads.append([k, f])
        loads.append(["never.written", {}])
        rng.shuffle(loads)
        return {"kind": "sim", "data": data, "writes": writes, "config": cfg, "loads": loads}

    def _sim_lines(self, case, obs):
        L = []
        vocab = Vocab()
        lst = lambda xs: ",".join(xs) if xs else "-"                            # noqa: E731
        for i, s in enumerate(case["data"]):
            if s["t"] == "json":
                L.append(f"data {i} json")
            else:
                qc, qr, cols, emp, ser = table_view(s, vocab)
                rows = ";".join(",".join(str(v) for v in r) for r in qr) if qr and qc else "-"
                L.append(f"data {i} table {lst(qc)} {rows} {lst(cols)} {1 if emp else 0} {1 if ser else 0}")
        for k, di in case["writes"]:
            L.append(f"op write k={enc_key(k)} {di}")
        draw = case["config"]["draw"]
        for k, _ in case["writes"]:
            L.append(f"fload k={enc_key(k)} {'draws:%d' % draw if draw is not None else '-'}")
        return L

    def _sim_compare(self, case, obs, replies):
        """the artifact the manager built – `Artifact(path, ["draw == <n>"])` – against the model"""
        dis = []
        data = case["data"]
        first = first_ids(data)
        pos = len(data) + len(case["writes"])
        for r in replies[:pos]:
            if r != "ok":
                dis.append(f"model refuses a set-up line: {r}")
        if obs.get("setup") != "ok" or obs.get("art_terms") is None and case["config"]["draw"] is not None:
            return dis
        for j, (k, _) in enumerate(case["writes"]):
            mv = self._model_view(replies[pos + j], data, first) if replies[pos + j] != "rejected" else "err"
            if obs["art_loads"].get(k) != mv:
                dis.append(f"manager's artifact load({k}): impl {json.dumps(obs['art_loads'].get(k))[:300]} model {replies[pos + j]}")
        return dis

    def _sim_oracle(self, case, obs):
        fails = []
        data, cfg = case["data"], case["config"]
        first = first_ids(data)
        stored = dict((k, di) for k, di in case["writes"])
        tol = obs.setdefault("_tolerated", [])

        def fail(sig, msg):
            fails.append({"sig": sig, "msg": msg})
        raw = cfg.get("raw_term")
        compound = raw is not None and any(x in raw for x in (" and ", " or ", "|", "&"))
        if (obs["setup"] != "ok") != compound:
            fail("sim-setup", f"setup {obs['setup']} with artifact_filter_term {raw!r} (a compound term must be refused, a single one accepted)")
            return fails
        if compound:
            return fails
        if not obs["file_unchanged"]:
            fail("sim-changed-artifact", "running setup with builder.data.load changed the bytes of the artifact file")
        want_terms = [] if cfg["draw"] is None else [f"draw == {cfg['draw']}"]
        if list(obs["art_terms"] or []) != want_terms:
            fail("sim-base-filter-terms", f"input_draw_number={cfg['draw']}: the manager's artifact has filter terms {obs['art_terms']}, expected {want_terms}")
        if obs.get("value_columns") != ["value"]:
            fail("sim-value-columns", f"value_columns() -> {obs.get('value_columns')}")
        for (k, filters), got in zip(case["loads"], obs["loads"]):
            where = f"builder.data.load({k!r}, **{filters}) with draw {cfg['draw']}, term {cfg['term']}"
            if k not in stored:
                if got[0] != "err":
                    fail("accepts-invalid-op", f"{where}: a key never written returns {str(got)[:80]}")
                continue
            spec = data[stored[k]]
            exp = manager_expected(spec, cfg["draw"], cfg["term"], filters)
            if exp[0] == "raises":
                if got[0] != "err":
                    fail("sim-load", f"{where}: returned {str(got)[:100]}, expected a refusal ({exp[1]})")
                elif exp[1] == "draw-filter-series-name":
                    fail("draw-filter-series-name", f"{where}: the stored Series named {spec['name']!r} cannot be loaded under the draw filter")
                continue
            if got[0] == "err":
                fail("sim-load", f"{where}: raises {got[1]}")
            elif exp[0] == "json":
                if got != ["data", ["d", first[stored[k]]]]:
                    fail("sim-load", f"{where}: returned {str(got)[:100]}")
            elif exp[0] == "series":
                want = self._project(spec_canon(spec), exp[1], [])
                if got != ["filtered", want]:
                    fail("sim-load", f"{where}: returned {json.dumps(got)[:200]}, expected the stored Series")
            else:
                _, cols, rows, labels = exp
                g = got[1] if got[0] == "filtered" else {}
                if g.get("t") != "frame" or g.get("cols") != cols or [r[1:] for r in g.get("rows", [])] != rows \
                        or [r[0] for r in g.get("rows", [])] != [["i", x] for x in labels]:
                    fail("sim-load", f"{where}: returned columns {g.get('cols')} rows {json.dumps(g.get('rows'))[:200]}; "
                                     f"expected columns {cols} rows {json.dumps(rows)[:200]} (labels {labels})")
        return fails

    def _sim_tags(self, case, obs):
        cfg = case["config"]
        t = ["kind:sim", f"sim-draw:{'none' if cfg['draw'] is None else 'zero' if cfg['draw'] == 0 else 'n'}",
             "sim-term:" + ("compound" if cfg.get("raw_term") else "none" if cfg["term"] is None else cfg["term"][0] + ":" + cfg.get("style", ""))]
        t += [f"tolerated:{c}" for c in sorted(set(obs.get("_tolerated", [])))]
        for (k, f), got in zip(case["loads"], obs.get("loads", [])):
            t.append("sim-load:" + ("refused" if got[0] == "err" else "json" if got[0] == "data" else "table")
                     + ("+filters" if f else ""))
            for v in f.values():
                t.append("sim-filter-form:" + ("list" if isinstance(v, list) else type(v).__name__))
        return t

    # ------------------------------------------------------------------ reporting
    def nontrivial(self, case, obs):
        if case.get("kind") == "sim":
            return bool(obs.get("loads"))
        outs = [(op[0], rec["out"]) for op, rec in zip(case["ops"], obs["ops"])]
        return (any(k in MUTATING and o == "ok" for k, o in outs) and any(o in ("err", "ctor-err") for _, o in outs)
                and any(k in ("load", "fload") and o not in ("err", "ctor-err") for k, o in outs))


    def tags(self, case, obs):
        if case.get("kind") == "sim":
            return self._sim_tags(case, obs)
        t = ["probe:" + case["probe"], f"len:{min(len(case['ops']) // 5 * 5, 25)}"]
        t += [f"tolerated:{c}" for c in sorted(set(obs.get("_tolerated", [])))]
        t += ["ctor:pathlib.Path" if case.get("pathobj") else "ctor:str", *(["process-noise"] if case.get("noise") else [])]
        if any(op[0] == "switch" for op in case["ops"]):
            t.append("two-live-artifacts")
        data = case["data"]
        for sp in data:
            if sp["t"] in ("frame", "series"):
                if sp.get("default_index"):
                    t.append("index:default-range")
                elif all(n is None for n in sp["names"]):
                    t.append("index:unnamed")
                    if len(sp["names"]) > 1 and (sp["t"] == "series" or not sp["cols"]):
                        t.append("tolerated:unnamed-index")
                for ld in sp.get("ldtypes") or []:
                    if ld:
                        t.append("level:" + ld)
                for dt in (sp.get("dtypes") or {}).values():
                    t.append("column-dtype:" + dt)
                if len({tuple(map(str, r)) for r in sp["index"]}) < len(sp["index"]):
                    t.append("index:repeated-labels")
                if sp["t"] == "series" and sp["name"] != "value":
                    t.append("series-name:" + str(sp["name"]))
                if any(c.startswith("#") for c, _ in sp.get("cols", [])):
                    t.append("column-name:int")
            if sp["t"] == "json" and sp.get("py"):
                t.append("json-python:" + sp["py"])
            if sp["t"] in ("unser", "zerorow", "badframe"):
                t.append(f"{sp['t']}:{sp['v']}")
                if sp["v"] in ("empty-unnamed", "empty-range"):
                    t.append("tolerated:unnamed-index")
        listed = set()
        hist = []
        acting = list(case.get("terms") or [])
        t.append("acting:" + ("no-terms" if not acting else "draw-terms" if any(x[0] == "draws" for x in acting) else "row-terms"))
        for op, rec in zip(case["ops"], obs["ops"]):
            kind, out = op[0], rec["out"]
            ok = out not in ("err", "ctor-err")
            if kind in ("write", "replace", "remove") and acting:
                t.append(("ok:" if ok else "refused:") + kind + "-under-terms")
            t.append(("ok:" if ok else "refused:") + kind)
            key = op[1] if len(op) > 1 and kind not in ("reopen", "switch", "mutate-keys") else None
            if kind == "mutate":
                t.append("mutate:" + ("in-place" if out == "mutated" else "not-applicable"))
            if kind == "mutate-keys":
                t.append("caller-edits-returned-key-list:" + op[1])
            if kind == "restore":
                t.append("restore:" + ("loaded-object-handed-back" + ("-mutated" if op[3] is not None else "") if out == "restored" else "not-applicable"))
            if key is not None and well_formed(key) and enc_key(key) != key:
                t.append("key:unusual-characters")
            if kind == "reopen":
                t.append("reopen:" + ("no-terms" if not op[1] else "draw-terms" if any(x[0] == "draws" for x in op[1]) else "row-terms"))
            if kind == "load" and ok and out[0] == "filtered" and acting:
                t.append("acting-load:table-under-terms")
            if key is not None and kind != "fload":
                t.append("key:malformed" if not well_formed(key) else ("key:keyspace-node" if key == KS else f"key:{len(parts(key))}-part"))
            if kind in ("write", "replace"):
                spec = None if op[2] is None else data[op[2]]
                dk = "none" if spec is None else spec["t"]
                if spec and spec["t"] == "frame":
                    dk = "frame-empty-indexed" if not spec["cols"] else ("frame-multiindex" if len(spec["names"]) > 1 else "frame-single-index")
                t.append("data:" + dk)
                if not ok:
                    why = ("bookkeeping-key" if key == KS else "duplicate" if kind == "write" and key in listed
                           else "missing-key" if kind == "replace" and key not in listed
                           else "none-data" if spec is None else "malformed-key" if not well_formed(key)
                           else "unserialisable" if spec["t"] == "unser" else "zero-row-frame" if spec["t"] == "zerorow"
                           else "unstorable-frame" if spec["t"] == "badframe" else "path-conflict")
                    t.append(f"refusal:{kind}:{why}")
            if kind in ("remove", "load") and not ok:
                t.append(f"refusal:{kind}:" + ("malformed-key" if not well_formed(key) else "bookkeeping-key" if key == KS
                                               else "missing-key" if key not in listed else "dangling-key"))
            if kind == "fload":
                t.append("fload:" + ("ctor-refused" if out == "ctor-err" else "missing" if out == "err" else "json" if out[0] == "data" else "table"))
                for term in op[2]:
                    t.append("term:draws" if term[0] == "draws" else "term:" + term[0])
                    if term[0] == "atom":
                        t.append("term-const:" + ("str" if isinstance(term[3], str) else "fraction" if isinstance(term[3], float) else "int"))
                    if term[0] != "draws":
                        t.append("term-col:nowhere" if term_cols(term) & NOWHERE else "term-col:named")
                if ok and out[0] == "filtered":
                    t.append("fload:rows-" + ("none" if not out[1]["rows"] else "some"))
            if rec.get("exc"):
                t.append("exc:" + rec["exc"])
            if kind in MUTATING and well_formed(key or ""):
                if any(related(key, k2) for k2 in hist):
                    t.append("nested-history")
                hist.append(key)
            listed = set(rec["obs"]["keys"])
            if kind == "reopen" and ok:
                acting = list(op[1])
        if any(v == "err" for rec in obs["ops"] for v in rec["obs"]["loads"].values()):
            t.append("state:listed-key-not-loadable")
        if any(rec["obs"]["fresh"] == "err" for rec in obs["ops"]):
            t.append("state:fresh-open-fails")
        if any(rec["obs"]["groups"] for rec in obs["ops"]):
            t.append("state:bare-groups-present")
        return t

    def sample_view(self, case, obs):
        if case.get("kind") == "sim":
            return {"kind": "sim", "config": case["config"], "loads": case["loads"][:3]}
        return {"probe": case["probe"], "acting_terms": [render_term(x) for x in case.get("terms") or []], "ops": [[*op[:2], (op[2] if len(op) > 2 and op[0] != "fload" else None)] for op in case["ops"][:8]],
                "outcomes": [rec["out"] if isinstance(rec["out"], str) else rec["out"][0] for rec in obs["ops"][:8]],
                "final_keys": obs["ops"][-1]["obs"]["keys"] if obs["ops"] else obs["init"]["keys"]}


PROP = C19()
