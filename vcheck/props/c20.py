"""C20 — every component is set up once; user configuration always wins.

Tie: (a) translator: configuration layers, the layer each `update` of configuration.py writes, the layer
`apply_configuration_defaults` writes and the action order of `SimulationContext.setup` are regenerated
from the source; Props/C20.lean re-decides the statements about them and instantiates the general
theorems with them. (b) correspondence: generated forests of probe components (depth <= 4, fan-out <= 3,
duplicate names at random depth - distinct objects and the same object twice -, names of framework
managers, clashing defaults) supplied through `components=[...]` and `add_components` in random splits to
a real `SimulationContext`, together with model-specification values, override arguments and component
defaults over shared key paths; compared with Driver/C20.lean: outcome class of every stage, registered
names, complete setup order (managers + components), the values every object reads through
`builder.configuration` while it is set up, the fate of every write attempted from inside `setup`, the
values after setup, writes / add_components / a second setup() after setup; deletions from setup (finding F18,
signature `config-delete-after-freeze`: layered_config_tree does not test `_frozen` in __delattr__/__delitem__).
"""
from __future__ import annotations

import hashlib
import random

from .. import impl
from ..runner import Prop

# names the generator uses for "a component named like a framework manager" (the oracle and the model use
# the names the running code reports, not this list)
MGR_NAMES = ["population_manager", "event_manager", "values_manager", "randomness_manager", "results_manager",
             "life_cycle_manager", "lookup_table_manager", "datetime_clock", "logging_manager"]
# manager defaults a user may safely override (value pools keep the managers' own setup happy)
# (falsy values included where the manager's setup tolerates them: a user may set a key to None / 0 / False / "" / [])
MGR_PATHS = {"population.population_size": [0, 3, 7], "randomness.random_seed": [1, 5, 42, None, False, "", []],
             "time.step_size": [2, 3], "interpolation.validate": [None, 0, False, ""], "interpolation.extrapolate": [None, 0, False],
             "interpolation.order": [None, False, ""], "stratification.default": [None, 0, ""],
             "randomness.additional_seed": [0, False, "", []]}
# prefix-free leaf paths at nesting depths 1-4
POOL = [f"s{a}.k{b}" for a in range(3) for b in range(4)] + ["s3.d.k0", "s3.d.k1", "s3.e.k0", "s4.a.b.k0", "s4.a.b.k1", "s4.a.c", "t0", "t1"]
# what a user may supply besides ordinary values: every one of these is a VALUE (None is not "unset")
FALSY = [None, 0, False, "", []]
HOWS = ["update", "setattr", "setitem", "sub_update"]
REJECTIONS = ("dupname", "dupvalue")


def tok(v) -> str:
    """opaque, protocol-safe token of a configuration value"""
    if isinstance(v, bool):
        return "bT" if v else "bF"
    if isinstance(v, int):
        return f"i{v}" if v >= 0 else f"im{-v}"
    if v is None:
        return "N"
    if isinstance(v, str) and v == "":
        return "sE"
    if isinstance(v, list) and not v:
        return "lE"
    return "h" + hashlib.sha1(repr(v).encode()).hexdigest()[:8]


def leaves(d, prefix=()):
    """leaf paths of a nested dict in traversal order (what LayeredConfigTree.update walks)"""
    out = []
    for k, v in d.items():
        if isinstance(v, dict) and v:
            out += leaves(v, prefix + (k,))
        else:
            out.append([".".join(prefix + (k,)), v])
    return out


def nest(pairs):
    out = {}
    for path, v in pairs:
        node = out
        parts = path.split(".")
        for k in parts[:-1]:
            node = node.setdefault(k, {})
        node[parts[-1]] = v
    return out


def canon_pairs(pairs):
    """order in which a nested dict built from `pairs` is traversed (sections grouped at first appearance)"""
    return leaves(nest(pairs))


def preorder(forest):
    out = []
    for t in forest:
        out.append(t)
        out += preorder(t["c"])
    return out


def depth(forest):
    return 0 if not forest else 1 + max(depth(t["c"]) for t in forest)


def classify(e) -> str:
    """exception -> small enum; never looks at messages (exception classes and chaining only)"""
    from layered_config_tree import ConfigurationError, DuplicatedConfigurationError
    from vivarium.framework.components.manager import ComponentConfigError
    from vivarium.framework.lifecycle import ConstraintError, InvalidTransitionError
    ctx = e.__context__
    if isinstance(e, ComponentConfigError) or type(e) is ValueError:
        if isinstance(ctx, DuplicatedConfigurationError):
            return "dupvalue"          # apply_configuration_defaults: raised while handling the duplicate
        if isinstance(ctx, ConfigurationError):
            return "structure"
        if isinstance(e, ComponentConfigError) and ctx is None:
            return "dupname"           # OrderedComponentSet.add
    if isinstance(e, DuplicatedConfigurationError):
        return "dupvalue"
    if isinstance(e, ConstraintError):
        return "constraint"
    if isinstance(e, InvalidTransitionError):
        return "transition"
    if type(e) is ConfigurationError:
        return "frozen"
    return "other:" + type(e).__name__


def _read(cfg, path):
    from layered_config_tree import LayeredConfigTree
    node = cfg
    for k in path.split("."):
        if not isinstance(node, LayeredConfigTree) or k not in node:
            return None
        node = node[k]
    if isinstance(node, LayeredConfigTree):
        return "TREE"
    return tok(node)


def _write(cfg, path, val, how) -> str:
    """one write at the outermost layer through the public API of the configuration object"""
    from layered_config_tree import LayeredConfigTree
    parts = path.split(".")
    try:
        node = cfg
        for k in parts[:-1]:
            if isinstance(node, LayeredConfigTree) and k in node:
                node = node[k]
            else:
                node = None
                break
        if how == "update" or node is None or (how != "sub_update" and parts[-1] not in node):
            cfg.update(nest([[path, val]]))
        elif how == "sub_update":
            node.update({parts[-1]: val})
        elif how == "setattr":
            setattr(node, parts[-1], val)
        else:
            node[parts[-1]] = val
        return "ok"
    except Exception as e:  # noqa: BLE001
        return classify(e)


def _delete(cfg, key, how) -> str:
    """`del cfg.a.b` / `del cfg["a"]["b"]` -> ok (existed, gone) / refused (raised or still there) / absent"""
    from layered_config_tree import LayeredConfigTree
    parts = key.split(".")
    node = cfg
    for k in parts[:-1]:
        if not isinstance(node, LayeredConfigTree) or k not in node:
            return "absent"
        node = node[k]
    if not isinstance(node, LayeredConfigTree) or parts[-1] not in node:
        return "absent"
    try:
        if how == "delattr":
            delattr(node, parts[-1])
        else:
            del node[parts[-1]]
    except Exception:  # noqa: BLE001
        return "refused"
    return "refused" if parts[-1] in node else "ok"


def under(key, p) -> bool:
    return p == key or p.startswith(key + ".")


_MGR_INFO = None


def manager_info():
    """[(name, [[path, token]…])] of the managers a default context registers (same for every context)"""
    global _MGR_INFO
    if _MGR_INFO is None:
        impl.load()
        from vivarium.framework.engine import SimulationContext
        SimulationContext._clear_context_cache()
        sim = SimulationContext(components=[], logging_verbosity=0)
        _MGR_INFO = [[m.name, [[p, tok(v)] for p, v in leaves(m.configuration_defaults)]]
                     for m in sim._component_manager._managers]
    return _MGR_INFO


def _run(case):
    impl.load()
    from layered_config_tree import LayeredConfigTree
    from vivarium import Component
    from vivarium.framework.engine import SimulationContext

    LOG = []
    DELETED = []
    probes = case["probes"]
    attempts = case["attempts"]
    flat_names = [t["n"] for t in preorder(case["forest"])]
    deleter = flat_names[-1] if (case.get("delete") and flat_names) else None

    class P(Component):
        def __init__(self, nm, subs, defaults):
            super().__init__()
            self.nm, self._subs, self._d = nm, subs, defaults

        @property
        def name(self):
            return self.nm

        @property
        def sub_components(self):
            return self._subs

        @property
        def configuration_defaults(self):
            return self._d

        def setup(self, builder):
            seen = [_read(builder.configuration, p) for p in probes]
            tried = [[self.nm, p, _write(builder.configuration, p, v, how)] for n, p, v, how in attempts if n == self.nm]
            LOG.append(["comp", self.nm, seen, tried])
            if self.nm == deleter:
                DELETED.append([self.nm, case["delete"][0], _delete(builder.configuration, *case["delete"])])

    memo = {}

    def build(node):
        if node["id"] not in memo:
            memo[node["id"]] = P(node["n"], [build(c) for c in node["c"]], nest(node["d"]))
        return memo[node["id"]]

    def wrap(kind, pairs):
        if kind is None:
            return None
        d = nest(pairs)
        return LayeredConfigTree(d) if kind == "lct" else d

    obs = {"mgrs": manager_info(), "stages": [], "pre": [], "setup": None, "values": None, "post": [],
           "late_add": None, "setup_twice": None}
    ms = wrap(case["ms_kind"], [["configuration." + p, v] for p, v in case["ms"]])
    ov = wrap(case["ov_kind"], case["ov"])
    forest = case["forest"]
    cuts, pos = [], 0
    for k in case["batches"]:
        cuts.append(forest[pos:pos + k])
        pos += k
    SimulationContext._clear_context_cache()
    sim = None
    for i, batch in enumerate(cuts):
        objs = [build(t) for t in batch]
        try:
            if i == 0:
                sim = SimulationContext(model_specification=ms, components=objs, configuration=ov, logging_verbosity=0)
            else:
                sim.add_components(objs)
            out = "ok"
        except Exception as e:  # noqa: BLE001
            out = classify(e)
        reg = [c.name for c in sim._component_manager._components] if (sim is not None and out == "ok") else None
        obs["stages"].append({"op": "ctor" if i == 0 else "add", "outcome": out, "registered": reg})
        if out != "ok":
            return obs
    obs["mgrs_live"] = [m.name for m in sim._component_manager._managers]
    for p, v in case["pre"]:
        obs["pre"].append(_write(sim.configuration, p, v, "update"))
    # observe manager setup: wrap the bound `setup` of every registered manager
    for m in sim._component_manager._managers:
        def w(builder, _orig=m.setup, _n=m.name):
            LOG.append(["mgr", _n, [_read(builder.configuration, p) for p in probes], []])
            return _orig(builder)
        m.setup = w
    try:
        sim.setup()
        out = "ok"
    except Exception as e:  # noqa: BLE001
        out = classify(e)
    obs["setup"] = {"outcome": out, "log": [[k, n] for k, n, _, _ in LOG], "seen": [[n, s] for _, n, s, _ in LOG],
                    "tried": [t for _, _, _, ts in LOG for t in ts], "deleted": DELETED[0] if DELETED else None}
    if out != "ok":
        return obs
    obs["values"] = [[p, _read(sim.configuration, p)] for p in probes]
    for p, v, how in case["post"]:
        obs["post"].append(_write(sim.configuration, p, v, how))
    if case["late_add"]:
        n0 = len(LOG)
        try:
            sim.add_components([P("zz_late", [], {})])
            out = "ok"
        except Exception as e:  # noqa: BLE001
            out = classify(e)
        obs["late_add"] = {"outcome": out, "setup_calls": len(LOG) - n0,
                           "registered": "zz_late" in [c.name for c in sim._component_manager._components]}
    if case["setup_twice"]:
        n0 = len(LOG)
        try:
            sim.setup()
            out = "ok"
        except Exception as e:  # noqa: BLE001
            out = classify(e)
        obs["setup_twice"] = {"outcome": out, "setup_calls": len(LOG) - n0}
    obs["values_end"] = [[p, _read(sim.configuration, p)] for p in probes]
    return obs


def _enc_defs(pairs, tokens=False):
    """`tokens`: the values are protocol tokens already (manager_info), otherwise raw configuration values"""
    return ";".join(f"{p}={v if tokens else tok(v)}" for p, v in pairs) if pairs else "-"


def _enc_forest(forest):
    nodes = [f"{t['n']}:{len(t['c'])}:{_enc_defs(canon_pairs(t['d']))}" for t in preorder(forest)]
    return f"{len(forest)} {','.join(nodes) if nodes else '-'}"


class C20(Prop):
    id = "C20"
    lean_modules = ["VivModel.Props.C20"]
    build_targets = ["VivModel.Model.Components", "VivModel.Model.Proto"]
    driver = "C20"
    technique = ("Lean 4 proof (refinement of the explicit-stack loop to the pre-order traversal; invariants over registration "
                 "and over the interpreted setup skeleton; decide over the layer / update / skeleton tables regenerated from "
                 "configuration.py, components/manager.py and engine.py) + exact correspondence on real SimulationContexts")
    trusted_extra = ["layered_config_tree (third party) is modelled as layered lookup over (layer, leaf path) entries: one value per "
                     "layer and path, outermost layer wins, freeze() makes every write raise; only prefix-free leaf paths are generated"]
    partial = None
    n_quick = 1500
    n_thorough = 8000
    workers = 1
    rule = ("each case is one real SimulationContext: a forest of probe components (depth <= 4, fan-out <= 3, up to ~16 nodes; "
            "duplicate names as distinct objects or the same object, at any depth; names of framework managers; clashing defaults "
            "between components and with managers) supplied through components=[...] and 0-2 add_components calls, with "
            "model-specification values (dict or LayeredConfigTree), override arguments and component defaults over shared key "
            "paths, writes attempted from setup() and afterwards; distinct by case hash; non-trivial = accepted with nesting and a "
            "user value over a default, or rejected because of a name/default clash below the top level")

    # ------------------------------------------------------------------ generation
    def _tree(self, rng, d, names, ids, budget):
        n = {"id": ids[0], "n": names.pop(), "d": [], "c": []}
        ids[0] += 1
        budget[0] -= 1
        if d < 4:
            for _ in range(rng.choice([0, 0, 1, 1, 2, 3]) if d > 1 else rng.choice([0, 1, 2, 2, 3])):
                if budget[0] <= 0 or not names:
                    break
                n["c"].append(self._tree(rng, d + 1, names, ids, budget))
        return n

    def generate(self, rng: random.Random, i: int, tier: str):
        names = [f"c{k}" for k in range(24)]
        rng.shuffle(names)
        ids, budget = [0], [rng.choice([1, 3, 6, 10, 16])]
        forest = []
        for _ in range(rng.choice([0, 1, 1, 2, 2, 3, 4])):
            if budget[0] <= 0:
                break
            forest.append(self._tree(rng, 1, names, ids, budget))
        flat = preorder(forest)
        pool = POOL[:]
        rng.shuffle(pool)
        npaths = rng.choice([3, 5, 8, len(pool)])
        pool = pool[:npaths]
        free = pool[:]
        for t in flat:                                        # defaults: globally distinct paths unless a fault is injected
            for _ in range(rng.choice([0, 0, 1, 1, 2])):
                if free:
                    t["d"].append([free.pop(), rng.randint(1, 9)])
        fault = rng.random()
        if flat and fault < 0.16 and len(flat) >= 2:            # duplicate name, distinct objects, random depth
            a, b = rng.sample(flat, 2)
            b["n"] = a["n"]
        elif flat and fault < 0.24:                              # the same object supplied twice (whole subtree shared)
            a = rng.choice(flat)
            host = rng.choice([None] + [t for t in flat if t is not a and not self._inside(a, t)])
            (forest if host is None else host["c"]).append(a)
        elif flat and fault < 0.34:                              # a component named like a framework manager
            rng.choice(flat)["n"] = rng.choice(MGR_NAMES)
        elif flat and fault < 0.50 and len(flat) >= 2:           # two components default the same key
            a, b = rng.sample(flat, 2)
            if not a["d"]:
                a["d"].append([rng.choice(pool), rng.randint(1, 9)])
            p, v = rng.choice(a["d"])
            if all(q != p for q, _ in b["d"]):
                b["d"].append([p, v if rng.random() < 0.3 else rng.randint(10, 19)])
        elif flat and fault < 0.56:                              # a component defaults a key a manager defaults
            p = rng.choice(list(MGR_PATHS))
            rng.choice(flat)["d"].append([p, rng.choice(MGR_PATHS[p])])
        for t in flat:
            t["d"] = canon_pairs(t["d"])
        rng.shuffle(forest)                                      # supply order is random
        defaulted = [p for t in flat for p, _ in t["d"]]
        cand = defaulted * 2 + pool + list(MGR_PATHS)

        def pick(k, base):
            out, seen = [], set()
            for _ in range(k):
                p = rng.choice(base) if base else None
                if p is None or p in seen:
                    continue
                seen.add(p)
                if p in MGR_PATHS:
                    v = rng.choice(MGR_PATHS[p])
                else:
                    v = rng.choice(FALSY) if rng.random() < falsy_rate else rng.randint(20, 99)
                out.append([p, v])
            return out
        falsy_rate = rng.choice([0.0, 0.3, 0.6, 1.0])
        ms = pick(rng.choice([0, 1, 2, 4]), cand)
        ov = pick(rng.choice([0, 1, 2, 4]), cand + [p for p, _ in ms] * 2)
        ms_kind = rng.choice(["dict", "lct"]) if ms else rng.choice([None, None, "dict"])
        ov_kind = rng.choice(["dict", "lct"]) if ov else rng.choice([None, None, "dict"])
        names_flat = [t["n"] for t in flat]
        attempts = []
        for _ in range(rng.choice([0, 0, 1, 2, 3])):
            if names_flat:
                attempts.append([rng.choice(names_flat), rng.choice(cand + ["fresh.k0", "s0.fresh"]), rng.randint(100, 199),
                                 rng.choice(HOWS)])
        pre = [[rng.choice(cand + ["early.k0"]), rng.randint(200, 299)]] if rng.random() < 0.15 else []
        pre = [x for x in pre if x[0] not in MGR_PATHS]
        post = [[rng.choice(cand + ["late.k0"]), rng.randint(300, 399), rng.choice(HOWS)] for _ in range(rng.choice([0, 1, 1, 2]))]
        used = {p for p, _ in ms} | {p for p, _ in ov} | set(defaulted) | {a[1] for a in attempts} | {p for p, _ in pre} \
            | {p for p, _, _ in post}
        probes = sorted(used)
        extra = [p for p in POOL + list(MGR_PATHS) + ["absent.k"] if p not in used]
        rng.shuffle(extra)
        probes = (probes + extra[:2])[:14]
        # how the top-level list is supplied
        n = len(forest)
        mode = rng.random()
        if mode < 0.4 or n == 0:
            batches = [n]
        elif mode < 0.55 or n == 1:
            batches = [0, n]
        else:
            a = rng.randint(1, n - 1)
            b = rng.randint(a, n)
            batches = [a] + [x for x in (b - a, n - b) if x > 0]
        delete = None
        if rng.random() < 0.25:
            keys = [p for p in cand if p not in MGR_PATHS]
            keys = keys + [".".join(p.split(".")[:k]) for p in keys for k in range(1, p.count(".") + 1)] + ["absent", "s0.nothing"]
            delete = [rng.choice(keys), rng.choice(["delattr", "delitem"])]
        return {"forest": forest, "batches": batches, "ms": ms, "ms_kind": ms_kind, "ov": ov, "ov_kind": ov_kind,
                "probes": probes, "attempts": attempts, "pre": pre, "post": post,
                "late_add": rng.random() < 0.3, "setup_twice": rng.random() < 0.3, "delete": delete}

    @staticmethod
    def _inside(a, t):
        """is node t inside the subtree of a (sharing a below its own descendant would make an infinite tree)"""
        return any(x is t for x in preorder([a]))

    def boundary(self):
        def N(i, n, d=(), c=()):
            return {"id": i, "n": n, "d": [list(x) for x in d], "c": list(c)}

        def case(forest, batches=None, ms=(), ov=(), attempts=(), pre=(), post=(), probes=None, late=False, twice=False,
                 ms_kind="dict", ov_kind="dict", delete=None):
            flat = preorder(forest)
            used = [p for t in flat for p, _ in t["d"]] + [p for p, _ in ms] + [p for p, _ in ov] + [a[1] for a in attempts] \
                + [p for p, _ in pre] + [p for p, _, _ in post]
            pr = probes if probes is not None else sorted(set(used)) + ["absent.k", "population.population_size"]
            return {"forest": forest, "batches": batches or [len(forest)], "ms": [list(x) for x in ms],
                    "ms_kind": ms_kind if ms else None, "ov": [list(x) for x in ov], "ov_kind": ov_kind if ov else None,
                    "probes": pr, "attempts": [list(a) for a in attempts], "pre": [list(x) for x in pre],
                    "post": [list(x) for x in post], "late_add": late, "setup_twice": twice,
                    "delete": list(delete) if delete else None}
        chain = N(0, "a", [("s0.k0", 1)], [N(1, "b", [], [N(2, "c", [("s0.k1", 2)], [N(3, "d", [("s1.k0", 3)])])])])
        wide = N(0, "a", [], [N(1, "b", [], [N(4, "e"), N(5, "f"), N(6, "g")]), N(2, "c", [("s0.k0", 1)]), N(3, "d", [], [N(7, "h")])])
        out = [
            case([]),                                                             # nothing supplied
            case([], batches=[0, 0], late=True, twice=True),
            case([N(0, "a")], late=True, twice=True),
            case([chain], ms=[("s0.k0", 10), ("s1.k0", 30)], ov=[("s1.k0", 300), ("s0.k1", 200)], late=True, twice=True),
            case([wide, N(8, "z", [("s2.k0", 5)])], batches=[1, 1]),
            case([N(8, "z", [("s2.k0", 5)]), wide], batches=[0, 1, 1]),
            # duplicate names: top level, deep, parent = child, same object twice, same object below another
            case([N(0, "a"), N(1, "a")]),
            case([N(0, "a", [], [N(1, "b", [], [N(2, "c", [], [N(3, "x")])])]), N(4, "x")]),
            case([N(4, "x"), N(0, "a", [], [N(1, "b", [], [N(2, "c", [], [N(3, "x")])])])], batches=[1, 1]),
            case([N(0, "a", [], [N(1, "a")])]),
            case([N(0, "a", [("s0.k0", 1)]), N(0, "a", [("s0.k0", 1)])]),
            case([N(0, "a"), N(0, "a")]),
            case([N(0, "a"), N(1, "b", [], [N(0, "a")])]),
            case([N(0, "a"), N(1, "b")], batches=[1, 1]),
            case([N(0, "a"), N(1, "a")], batches=[1, 1]),
            # manager names: top level and deep (refused when setup joins the two sets)
            case([N(0, "population_manager")]),
            case([N(0, "a", [], [N(1, "b", [], [N(2, "event_manager")])])], late=True),
            case([N(0, "a"), N(1, "datetime_clock", [("s0.k0", 1)])], batches=[1, 1], ov=[("s0.k0", 9)]),
            # clashing defaults: siblings, parent/child, across batches, same value, with a manager
            case([N(0, "a", [("s0.k0", 1)]), N(1, "b", [("s0.k0", 2)])]),
            case([N(0, "a", [("s0.k0", 1)], [N(1, "b", [("s0.k1", 2), ("s0.k0", 1)])])]),
            case([N(0, "a", [("s0.k0", 1)]), N(1, "b", [("s0.k0", 2)])], batches=[1, 1], ov=[("s0.k0", 7)]),
            case([N(0, "a", [("population.population_size", 7)])]),
            case([N(0, "a", [], [N(1, "b", [("randomness.random_seed", 5)])])], ov=[("randomness.random_seed", 1)]),
            # all layerings of one key, both component orders
            case([N(0, "a", [("s0.k0", 1)]), N(1, "b", [("s0.k1", 2)])], ms=[("s0.k0", 10), ("s0.k1", 20)], ov=[("s0.k0", 100)]),
            case([N(1, "b", [("s0.k1", 2)]), N(0, "a", [("s0.k0", 1)])], ms=[("s0.k0", 10), ("s0.k1", 20)], ov=[("s0.k0", 100)]),
            case([N(0, "a", [("s0.k0", 1)])], ms=[("s0.k0", 10)], ms_kind="lct"),
            case([N(0, "a", [("s0.k0", 1)])], ov=[("s0.k0", 100)], ov_kind="lct"),
            case([N(0, "a", [("s0.k0", 1)])], ms=[("s1.k0", 10)], ov=[("s1.k0", 100), ("s2.k2", 5)]),
            case([N(0, "a")], ms=[("population.population_size", 3)], ov=[("population.population_size", 7)]),
            case([N(0, "a")], ms=[("population.population_size", 3), ("time.step_size", 2)]),
            # writes from setup through every access path, on existing / user / fresh keys; writes before and after setup
            case([N(0, "a", [("s0.k0", 1)], [N(1, "b", [("s0.k1", 2)])]), N(2, "c")], ov=[("s0.k1", 9)],
                 attempts=[("a", "s0.k0", 50, "update"), ("a", "s0.k0", 51, "setattr"), ("b", "s0.k0", 52, "setitem"),
                           ("b", "s0.k1", 53, "sub_update"), ("b", "fresh.k0", 54, "update"), ("c", "s0.fresh", 55, "sub_update"),
                           ("c", "s0.k1", 56, "setattr")],
                 post=[("s0.k0", 60, "update"), ("s0.k1", 61, "setattr"), ("late.k0", 62, "update"), ("s0.k0", 63, "setitem")]),
            case([N(0, "a", [("s0.k0", 1)])], ov=[("s0.k1", 9)], pre=[("s0.k0", 70)], post=[("s0.k0", 71, "update")]),
            case([N(0, "a", [("s0.k0", 1)])], ov=[("s0.k0", 9)], pre=[("s0.k0", 70)]),
            case([N(0, "a", [("s0.k0", 1)])], pre=[("early.k0", 70)], attempts=[("a", "early.k0", 5, "update")]),
            # falsy user values are values: None / 0 / False / "" / [] over component and manager defaults, at depths 1-4,
            # as override argument (plain dict and LayeredConfigTree) and in the model specification, and None over a
            # model-specification value
            case([N(0, "a", [("s0.k0", 1), ("s0.k1", 2), ("s3.d.k0", 3), ("s4.a.b.k0", 4), ("t0", 5)], [N(1, "b", [("s1.k0", 6)])])],
                 ov=[("s0.k0", None), ("s0.k1", 0), ("s3.d.k0", False), ("s4.a.b.k0", ""), ("t0", []), ("s1.k0", None)]),
            case([N(0, "a", [("s0.k0", 1), ("s0.k1", 2), ("s3.d.k0", 3), ("s4.a.b.k0", 4), ("t0", 5)], [N(1, "b", [("s1.k0", 6)])])],
                 ov=[("s0.k0", None), ("s0.k1", 0), ("s3.d.k0", False), ("s4.a.b.k0", ""), ("t0", []), ("s1.k0", None)], ov_kind="lct"),
            case([N(0, "a", [("s0.k0", 1), ("s3.d.k0", 3), ("s4.a.b.k0", 4), ("t0", 5)])],
                 ms=[("s0.k0", None), ("s3.d.k0", 0), ("s4.a.b.k0", None), ("t0", False), ("s2.k2", [])]),
            case([N(0, "a", [("s0.k0", 1), ("s3.d.k0", 3)])], ms=[("s0.k0", None), ("s3.d.k0", 0)], ms_kind="lct"),
            case([N(0, "a", [("s0.k0", 1)]), N(1, "b", [("s4.a.b.k1", 2)])], ms=[("s0.k0", 10), ("s4.a.b.k1", 20), ("t1", 30)],
                 ov=[("s0.k0", None), ("s4.a.b.k1", None), ("t1", None)]),
            case([N(0, "a", [("s0.k0", 1)])], ms=[("s0.k0", None)], ov=[("s0.k0", 0)]),
            case([N(0, "a")], ov=[("interpolation.validate", None), ("interpolation.extrapolate", False), ("randomness.random_seed", None),
                                  ("stratification.default", None), ("randomness.additional_seed", 0), ("fresh.k0", None)],
                 probes=["interpolation.validate", "interpolation.extrapolate", "randomness.random_seed", "stratification.default",
                         "randomness.additional_seed", "fresh.k0", "interpolation.order"]),
            case([N(0, "a")], ms=[("interpolation.validate", None), ("interpolation.order", None)], ov=[("interpolation.order", False)]),
            # F18 (known finding): deletions from a component's setup – a whole section, one leaf, a user-supplied key,
            # a sub-tree, a key that does not exist (nothing to delete: not a finding)
            case([N(0, "a", [("s0.k0", 1), ("s1.k0", 2)])], delete=("s0", "delattr"), post=[("s1.k0", 5, "update")]),
            case([N(0, "a", [("s0.k0", 1), ("s0.k1", 2)], [N(1, "b")])], delete=("s0.k1", "delitem"),
                 attempts=[("b", "s0.k1", 7, "update")]),
            case([N(0, "a", [("s0.k0", 1)]), N(1, "b")], ms=[("s0.k0", 10), ("s0.k1", 20)], ov=[("s0.k0", 100)],
                 delete=("s0.k0", "delattr"), late=True, twice=True),
            case([N(0, "a", [("s3.d.k0", 1), ("s3.e.k0", 2)])], delete=("s3.d", "delitem")),
            case([N(0, "a", [("s0.k0", 1)])], delete=("absent", "delattr")),
        ]
        return out

    def shrink(self, case):
        forest = case["forest"]

        def rebatch(f):
            return dict(case, forest=f, batches=[len(f)])
        for i in range(len(forest)):
            yield rebatch(forest[:i] + forest[i + 1:])
        for i, t in enumerate(forest):                          # hoist children / drop a child / drop a default
            if t["c"]:
                yield rebatch(forest[:i] + t["c"] + forest[i + 1:])
            for j in range(len(t["c"])):
                yield rebatch(forest[:i] + [dict(t, c=t["c"][:j] + t["c"][j + 1:])] + forest[i + 1:])
            for j in range(len(t["d"])):
                yield dict(case, forest=forest[:i] + [dict(t, d=t["d"][:j] + t["d"][j + 1:])] + forest[i + 1:])
        if len(case["batches"]) > 1:
            yield dict(case, batches=[len(forest)])
        for key in ("ms", "ov", "attempts", "pre", "post"):
            for j in range(len(case[key])):
                c = dict(case, **{key: case[key][:j] + case[key][j + 1:]})
                if key == "ms" and not c["ms"]:
                    c["ms_kind"] = None
                if key == "ov" and not c["ov"]:
                    c["ov_kind"] = None
                yield c
        if case.get("delete"):
            yield dict(case, delete=None)
        if case["late_add"]:
            yield dict(case, late_add=False)
        if case["setup_twice"]:
            yield dict(case, setup_twice=False)
        for j in range(len(case["probes"])):
            yield dict(case, probes=case["probes"][:j] + case["probes"][j + 1:])

    # ------------------------------------------------------------------ implementation
    def run_impl(self, case):
        return _run(case)

    # ------------------------------------------------------------------ model
    def _plan(self, case, obs):
        """[(line, kind, payload)] – the operations the implementation actually performed, as driver lines"""
        plan = []
        for p, v in case["ms"]:
            plan.append((f"user model_specification {p} {tok(v)}", "user", None))
        for p, v in case["ov"]:
            plan.append((f"user configuration {p} {tok(v)}", "user", None))
        for name, defs in obs["mgrs"]:
            plan.append((f"mgr {name} {_enc_defs(defs, tokens=True)}", "mgr", name))
        pos = 0
        for k, st in zip(case["batches"], obs["stages"]):
            plan.append((f"add {_enc_forest(case['forest'][pos:pos + k])}", "add", st))
            pos += k
        for (p, v), o in zip(case["pre"], obs["pre"]):
            plan.append((f"set {p} {tok(v)}", "set", o))
        if obs["setup"] is not None:
            att = ";".join(f"{n}={p}={tok(v)}" for n, p, v, _ in case["attempts"]) or "-"
            plan.append((f"setup {','.join(case['probes']) or '-'} {att}", "setup", obs["setup"]))
            d = obs["setup"].get("deleted")
            if d and d[2] == "ok" and obs["setup"]["outcome"] == "ok":
                plan.append((f"del {d[1]}", "del", d))
        if obs["values"] is not None:
            for p, v in obs["values"]:
                plan.append((f"get {p}", "get", v))
            for (p, v, _), o in zip(case["post"], obs["post"]):
                plan.append((f"set {p} {tok(v)}", "set", o))
            if obs["late_add"] is not None:
                plan.append(("add 1 zz_late:0:-", "late", obs["late_add"]))
            if obs["setup_twice"] is not None:
                plan.append(("setup - -", "twice", obs["setup_twice"]))
            for p, v in obs.get("values_end", []):
                plan.append((f"get {p}", "get", v))
        return plan

    def model_lines(self, case, obs):
        return [l for l, _, _ in self._plan(case, obs)]

    @staticmethod
    def _outcome(reply):
        t = reply.split()
        return "ok" if t[0] == "ok" else (t[0][4:] if t[0].startswith("err:") else t[0])

    def compare(self, case, obs, replies):
        dis = []
        for k, ((line, kind, pay), r) in enumerate(zip(self._plan(case, obs), replies)):
            mo = self._outcome(r)
            t = r.split()
            if kind in ("user", "mgr"):
                # a refusal here surfaces in the constructor: compared at the first `add`
                if mo != "ok" and not (obs["stages"] and obs["stages"][0]["outcome"] == mo):
                    dis.append(f"#{k} {line}: model {r}, constructor {obs['stages'][0]['outcome'] if obs['stages'] else None}")
                if mo != "ok":
                    break
            elif kind == "add":
                if pay["outcome"] != mo:
                    dis.append(f"#{k} {pay['op']} [{line[:70]}]: impl {pay['outcome']}, model {r[:60]}")
                elif mo == "ok":
                    names = [] if t[1] == "-" else t[1].split(",")
                    if names != pay["registered"]:
                        dis.append(f"#{k} {pay['op']}: registered impl {pay['registered']}, model {names}")
                if pay["outcome"] != "ok" or mo != "ok":
                    break
            elif kind == "set":
                if pay != mo:
                    dis.append(f"#{k} {line}: impl {pay}, model {mo}")
            elif kind == "setup":
                if pay["outcome"] != mo:
                    dis.append(f"#{k} setup: impl {pay['outcome']}, model {r[:60]}")
                    break
                if mo != "ok":
                    break
                mlog = [] if t[1] == "-" else t[1].split(",")
                ilog = [n for _, n in pay["log"]]
                if mlog != ilog:
                    dis.append(f"#{k} setup order: impl {ilog}, model {mlog}")
                mseen = [] if t[2] == "-" else [x.split("=") for x in t[2].split(",")]
                mseen = [[n, [None if v == "~" else v for v in vs.split("|")] if vs else []] for n, vs in mseen]
                if mseen != pay["seen"]:
                    bad = next((i for i, (a, b) in enumerate(zip(mseen, pay["seen"])) if a != b), None)
                    dis.append(f"#{k} values read during setup differ at call {bad}: impl {pay['seen'][bad] if bad is not None else len(pay['seen'])}, "
                               f"model {mseen[bad] if bad is not None else len(mseen)} (probes {case['probes']})")
                mtried = [] if t[3] == "-" else [x.split("=") for x in t[3].split(",")]
                mtried = [[n, p, "ok" if b == "1" else "refused"] for n, p, b in mtried]
                itried = [[n, p, "ok" if o == "ok" else "refused"] for n, p, o in pay["tried"]]
                if mtried != itried:
                    dis.append(f"#{k} writes attempted from setup: impl {pay['tried']}, model {mtried}")
            elif kind == "del":
                if mo != "ok":
                    dis.append(f"#{k} {line}: model {r}")
            elif kind == "get":
                mv = t[1] if t[0] == "val" else None
                if mv != pay:
                    dis.append(f"#{k} {line}: impl {pay}, model {r}")
            elif kind == "late":
                if pay["outcome"] != mo:
                    dis.append(f"#{k} add_components after setup: impl {pay['outcome']}, model {r}")
            elif kind == "twice":
                if pay["outcome"] != mo:
                    dis.append(f"#{k} second setup(): impl {pay['outcome']}, model {r}")
        return dis

    # ------------------------------------------------------------------ oracle (the property itself)
    def _facts(self, case, obs):
        flat = preorder(case["forest"])
        names = [t["n"] for t in flat]
        mgr_names = set(obs.get("mgrs_live") or [n for n, _ in obs["mgrs"]])
        mgr_paths = {p for _, defs in obs["mgrs"] for p, _ in defs}
        dup_name = len(set(names)) != len(names)
        mgr_clash = any(n in mgr_names for n in names)
        paths = [p for t in flat for p, _ in t["d"]]
        dup_default = len(set(paths)) != len(paths) or any(p in mgr_paths for p in paths)
        return flat, names, mgr_names, dup_name, mgr_clash, dup_default

    def oracle(self, case, obs):
        f = []
        flat, names, mgr_names, dup_name, mgr_clash, dup_default = self._facts(case, obs)
        outcomes = [s["outcome"] for s in obs["stages"]] + ([obs["setup"]["outcome"]] if obs["setup"] else [])
        completed = obs["setup"] is not None and obs["setup"]["outcome"] == "ok"
        for o in outcomes:
            if o != "ok" and o not in REJECTIONS:
                f.append({"sig": "unexpected-exception", "msg": f"stage outcomes {outcomes}"})
                return f
        if dup_name and completed:
            f.append({"sig": "duplicate-name-accepted", "msg": f"component names {names} were all registered and set up"})
        if mgr_clash and not dup_name and completed:
            f.append({"sig": "manager-name-accepted", "msg": f"a component is named like a framework manager: {[n for n in names if n in mgr_names]}"})
        if dup_default and not dup_name and not mgr_clash and completed:
            f.append({"sig": "duplicate-default-accepted", "msg": f"defaults {[(t['n'], t['d']) for t in flat if t['d']]} were all applied"})
        if not (dup_name or mgr_clash or dup_default) and not completed:
            f.append({"sig": "valid-program-rejected", "msg": f"unique names {names}, disjoint defaults, stage outcomes {outcomes}"})
        if not completed:
            return f
        reg = obs["stages"][-1]["registered"] if obs["stages"] else []
        if sorted(reg) != sorted(names):
            f.append({"sig": "component-registration-count", "msg": f"supplied {names}, registered {reg}"})
        log = obs["setup"]["log"]
        comp_calls = [n for k, n in log if k == "comp"]
        # exactly once
        for n in set(names) | set(comp_calls):
            if comp_calls.count(n) != names.count(n):
                f.append({"sig": "component-setup-count", "msg": f"{n}: supplied {names.count(n)} time(s), set up {comp_calls.count(n)} time(s); setup log {comp_calls}"})
                break
        # after all framework managers
        first_comp = next((i for i, (k, _) in enumerate(log) if k == "comp"), len(log))
        late_mgrs = [n for i, (k, n) in enumerate(log) if k == "mgr" and i > first_comp]
        missing = sorted(mgr_names - {n for k, n in log if k == "mgr"})
        if comp_calls and (late_mgrs or missing):
            f.append({"sig": "component-before-manager", "msg": f"managers set up after the first component: {late_mgrs}; never set up: {missing}"})
        # after its parent
        if not dup_name:
            pos = {n: i for i, n in enumerate(comp_calls)}
            for t in flat:
                for c in t["c"]:
                    if t["n"] in pos and c["n"] in pos and pos[c["n"]] < pos[t["n"]]:
                        f.append({"sig": "child-before-parent", "msg": f"{c['n']} was set up before its parent {t['n']}: {comp_calls}"})
                        break
        # user values win, during setup and afterwards, whatever the order
        ov, ms = dict(map(tuple, case["ov"])), dict(map(tuple, case["ms"]))
        touched = {p for p, _ in case["pre"]}
        # F18: a deletion from a component's setup that is accepted (layered_config_tree ignores freeze() in
        # __delattr__/__delitem__). Exactly this input class gets its own signature; what follows from it (the deleted
        # keys read differently afterwards) is not reported a second time under another signature.
        d = obs["setup"].get("deleted")
        gone = d[1] if d and d[2] == "ok" else None
        if gone is not None:
            f.append({"sig": "config-delete-after-freeze",
                      "msg": f"component {d[0]} ran `del builder.configuration.{gone}` inside setup(): accepted, "
                             f"values afterwards {[x for x in obs['values'] if under(gone, x[0])]}"})
        idx = {p: i for i, p in enumerate(case["probes"])}
        for p in case["probes"]:
            if p in touched or not (p in ov or p in ms) or (gone is not None and under(gone, p)):
                continue
            want = tok(ov[p] if p in ov else ms[p])
            got = dict(map(tuple, obs["values"])).get(p)
            if got != want:
                f.append({"sig": "user-value-lost", "msg": f"{p}: user supplied {'override ' + str(ov[p]) if p in ov else 'model specification ' + str(ms[p])}, configuration returns {got}"})
                break
            wrong = [(n, s[idx[p]]) for n, s in obs["setup"]["seen"] if s[idx[p]] != want]
            if wrong:
                f.append({"sig": "user-value-lost", "msg": f"{p}: user supplied {want}, seen during setup: {wrong[:3]}"})
                break
        # the configuration cannot be modified once setup has begun
        acc = [t for t in obs["setup"]["tried"] if t[2] == "ok"]
        if acc:
            f.append({"sig": "config-modified-in-setup", "msg": f"writes accepted from inside setup(): {acc}"})
        keep = [i for i, p in enumerate(case["probes"]) if not (gone is not None and under(gone, p))]
        views = [s for _, s in obs["setup"]["seen"]] + [[v for _, v in obs["values"]]] + [[v for _, v in obs.get("values_end", obs["values"])]]
        views = [[v[i] for i in keep] for v in views]
        if any(v != views[0] for v in views):
            f.append({"sig": "config-changed-after-setup-began", "msg": f"probes {[case['probes'][i] for i in keep]}: different values were visible at different moments: {[v for v in views if v != views[0]][:2]} vs {views[0]}"})
        if any(o == "ok" for o in obs["post"]):
            f.append({"sig": "config-modified-after-setup", "msg": f"writes after setup(): {list(zip(case['post'], obs['post']))}"})
        if obs["late_add"] and (obs["late_add"]["outcome"] == "ok" or obs["late_add"]["registered"]) and obs["late_add"]["setup_calls"] != 1:
            f.append({"sig": "late-component-never-set-up", "msg": f"add_components after setup(): {obs['late_add']}"})
        if obs["setup_twice"] and obs["setup_twice"]["setup_calls"]:
            f.append({"sig": "component-setup-count", "msg": f"a second setup() ran {obs['setup_twice']['setup_calls']} more setup calls"})
        return f

    # ------------------------------------------------------------------ reporting
    def nontrivial(self, case, obs):
        flat, names, mgr_names, dup_name, mgr_clash, dup_default = self._facts(case, obs)
        completed = obs["setup"] is not None and obs["setup"]["outcome"] == "ok"
        defaulted = {p for t in flat for p, _ in t["d"]}
        user = {p for p, _ in case["ov"]} | {p for p, _ in case["ms"]}
        if completed:
            return depth(case["forest"]) >= 2 and bool(defaulted & user)
        return depth(case["forest"]) >= 2 and (dup_name or mgr_clash or dup_default)

    def tags(self, case, obs):
        flat, names, mgr_names, dup_name, mgr_clash, dup_default = self._facts(case, obs)
        t = [f"depth:{depth(case['forest'])}", "nodes:" + ("0" if not flat else "1" if len(flat) == 1 else "2-5" if len(flat) <= 5 else "6-10" if len(flat) <= 10 else "11+"),
             "fanout:" + str(max([len(x["c"]) for x in flat] + [0])),
             "supply:" + ("ctor" if len(case["batches"]) == 1 else "add-only" if case["batches"][0] == 0 else "ctor+add"),
             f"ms:{case['ms_kind']}", f"ov:{case['ov_kind']}"]
        for s in obs["stages"]:
            t.append(f"{s['op']}:{s['outcome']}")
        if obs["setup"]:
            t.append("setup:" + obs["setup"]["outcome"])
            t += ["write-from-setup:" + o for _, _, o in obs["setup"]["tried"]]
        t += ["write-before-setup:" + o for o in obs["pre"]]
        t += ["write-after-setup:" + o for o in obs["post"]]
        t += ["write-how:" + a[3] for a in case["attempts"]] + ["write-how-after:" + a[2] for a in case["post"]]
        if obs["late_add"]:
            t.append("add-after-setup:" + obs["late_add"]["outcome"])
        if obs["setup_twice"]:
            t.append("second-setup:" + obs["setup_twice"]["outcome"])
        ids = [x["id"] for x in flat]
        if len(set(ids)) != len(ids):
            t.append("fault:same-object-twice")
        elif dup_name:
            t.append("fault:duplicate-name")
        if dup_name:
            seen, dd = {}, 0
            stack = [(x, 1) for x in case["forest"]]
            while stack:
                x, d = stack.pop()
                if x["n"] in seen:
                    dd = max(dd, d, seen[x["n"]])
                seen.setdefault(x["n"], d)
                stack += [(c, d + 1) for c in x["c"]]
            t.append(f"fault:duplicate-depth:{dd}")
        if mgr_clash:
            t.append("fault:manager-name")
        if dup_default:
            mp = {p for _, defs in obs["mgrs"] for p, _ in defs}
            t.append("fault:default-vs-manager" if any(p in mp for x in flat for p, _ in x["d"]) else "fault:two-defaults")
        if not (dup_name or mgr_clash or dup_default):
            t.append("valid-program")
        defaulted = {p for x in flat for p, _ in x["d"]}
        ov, ms = {p for p, _ in case["ov"]}, {p for p, _ in case["ms"]}
        mgrp = {p for _, defs in obs["mgrs"] for p, _ in defs}
        for lab, s in (("ov>ms>default", ov & ms & defaulted), ("ov>default", (ov - ms) & defaulted), ("ms>default", (ms - ov) & defaulted),
                       ("ov>ms", (ov & ms) - defaulted), ("user>manager-default", (ov | ms) & mgrp), ("default-only", defaulted - ov - ms),
                       ("user-only", (ov | ms) - defaulted - mgrp)):
            if s:
                t.append("layering:" + lab)
        for lab, kind, pairs in (("ov", case["ov_kind"], case["ov"]), ("ms", case["ms_kind"], case["ms"])):
            for pth, v in pairs:
                vk = "None" if v is None else "False" if v is False else "0" if (v == 0 and not isinstance(v, bool)) else \
                    "empty-str" if v == "" else "empty-list" if v == [] else "ordinary"
                t.append(f"user-value:{vk}@{lab}-{kind}")
                t.append(f"user-key-depth:{pth.count('.') + 1}")
                if vk != "ordinary" and (pth in defaulted or pth in mgrp):
                    t.append(f"falsy-user-value-over-default:{vk}")
        if obs["setup"] and obs["setup"].get("deleted"):
            d = obs["setup"]["deleted"]
            t.append("delete-from-setup:" + d[2])
            t.append("delete-how:" + case["delete"][1])
            if d[2] == "ok":
                t.append("delete-target:" + ("section" if "." not in d[1] else "leaf-or-subtree"))
                if any(under(d[1], p) for p, _ in case["ov"] + case["ms"]):
                    t.append("delete-target:user-supplied-key")
        return t

    def sample_view(self, case, obs):
        return {"forest": [self._show(t) for t in case["forest"]], "batches": case["batches"], "ms": case["ms"], "ov": case["ov"],
                "stages": [[s["op"], s["outcome"]] for s in obs["stages"]],
                "setup": obs["setup"] and {"outcome": obs["setup"]["outcome"], "order": [n for _, n in obs["setup"]["log"]][-8:],
                                           "tried": obs["setup"]["tried"], "deleted": obs["setup"].get("deleted")},
                "values": obs["values"]}

    def _show(self, t):
        return {t["n"]: [dict(map(tuple, t["d"])), [self._show(c) for c in t["c"]]]}


PROP = C20()
