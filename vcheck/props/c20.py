"""C20 — every component is set up once; user configuration always wins.

Tie: (a) translator: configuration layers, the layer each `update` of configuration.py writes, the layer
`apply_configuration_defaults` writes, the action order of `SimulationContext.setup`, the operand order of
`setup_components` are regenerated from the source; Props/C20.lean re-decides the statements about them and
instantiates the general theorems with them. (b) correspondence on real `SimulationContext`s against
Driver/C20.lean: outcome class of every stage, registered names, complete setup order (managers + components),
the values every object reads through `builder.configuration` while it is set up, the fate of every write
attempted from inside `setup`, the values after setup, writes / add_components / a second setup() afterwards,
deletions from setup (finding F18, `config-delete-after-freeze`).

Inputs are NOT normalised (notes/LESSONS.md): components reach the simulation through every route – the
`components:` block of the model specification or a `components=` dict / LayeredConfigTree (strings parsed by the
ComponentConfigurationParser into the importable classes of vcheck/c20_probes.py), the `components=` list,
`add_components` in several batches (list / tuple / nested groups) – with `sub_components` returned as list, tuple,
a new list per access, NEW child objects per access, or a generator; defaults declared through the property or as
class attribute CONFIGURATION_DEFAULTS; configuration through every route – model specification as dict /
LayeredConfigTree / YAML file (str and Path) in a temp dir, `configuration=` dict / LayeredConfigTree,
`~/vivarium.yaml` (HOME is pointed at a temp dir for every simulation, the real home is never read), plugin
configuration (clock kind, an optional probe manager with a name and defaults of the generator's choice) as argument
or in the specification; values of every YAML-able type incl. None / 0 / False / "" / []; the same key at different
depths (prefix conflicts) between components, managers and user layers; earlier simulations in the same process with
the same names / classes / keys and different values. The oracle derives every expectation from the case (the
configuration) and from constants taken from the property's anchors, never from values read back.

Faults and re-entrancy (lesson 16): in about a third of the cases the history contains `add_components` calls that the
code refuses (duplicate names at any depth, defaults clashing with a registered component / a manager, defaults that
change the structure of the configuration - also below / above a key the USER supplied -, a `sub_components` or
`configuration_defaults` property that raises); the harness catches the error where a caller could and carries on with
the SAME context: it reads every touched key after every call, adds the corrected batch (new objects, or the same
objects for the members that were all right), repeats the refused batch verbatim, adds unrelated batches, runs the
remaining ordinary stages and `setup()`; sometimes the `setup` of one component / of the optional manager raises, is
caught, and the context is used further (reads, writes, add_components, a second setup()). The model says what each
refused call leaves behind (driver ops `addk`, `setupk`); the oracle states what the property says about such a
history and no more (see `_oracle_faults`).
"""
from __future__ import annotations

import atexit
import copy
import hashlib
import os
import random
import shutil
import tempfile

from .. import impl
from ..runner import Prop

# framework managers in the order engine.py registers them (property anchor "engine.py 169-182"); the oracle uses
# THIS list, not what the running code reports
BUILTIN_MGRS = ["logging_manager", "life_cycle_manager", "resource_manager", "values_manager", "population_manager", "<clock>",
                "randomness_manager", "event_manager", "lookup_table_manager", "artifact_manager", "results_manager"]
CLOCK_NAME = {"datetime": "datetime_clock", "simple": "simple_clock"}
MGR_NAMES = [m for m in BUILTIN_MGRS if m != "<clock>"] + ["datetime_clock", "simple_clock", "probe_manager"]
# manager defaults a user may safely override (value pools keep the managers' own setup happy; falsy values where the
# manager's setup tolerates them)
MGR_PATHS = {"population.population_size": [0, 3, 7], "randomness.random_seed": [1, 5, 42, None, False, "", []],
             "time.step_size": [2, 3], "interpolation.validate": [None, 0, False, ""], "interpolation.extrapolate": [None, 0, False],
             "interpolation.order": [None, False, ""], "stratification.default": [None, 0, ""],
             "randomness.additional_seed": [0, False, "", []]}
# prefix-free leaf paths at nesting depths 1-4
POOL = [f"s{a}.k{b}" for a in range(3) for b in range(4)] + ["s3.d.k0", "s3.d.k1", "s3.e.k0", "s4.a.b.k0", "s4.a.b.k1", "s4.a.c", "t0", "t1"]
FALSY = [None, 0, False, "", []]
# every YAML-able kind of value (a dict is structure, not a value); "None" / "0" are strings on purpose
ODD = [1.5, -2.25, -3, "text", "None", "0", [1, 2], [[1], [2, None]], True, 2 ** 40, "a b: c"]
HOWS = ["update", "setattr", "setitem", "sub_update"]
SUBS = ["list", "tuple", "copy", "fresh"]
PROTOS = ["len0", "len3", "bool_false", "bool_true", "len0_bool_true", "len3_bool_false", "iter_len0", "eq_name", "eq_never", "eq_always"]
FALSY_PROTOS = ("len0", "bool_false", "len3_bool_false", "iter_len0")
HOLES = ["none", "elist", "etuple"]
PROBE_PKG = ["vcheck", "c20_probes"]


def tok(v) -> str:
    """opaque, protocol-safe token of a configuration value (type-sensitive: 1, True, 1.0, "1" all differ)"""
    if isinstance(v, bool):
        return "bT" if v else "bF"
    if isinstance(v, int):
        return f"i{v}" if v >= 0 else f"im{-v}"
    if v is None:
        return "N"
    if isinstance(v, str) and v == "":
        return "sE"
    if isinstance(v, list) and not v:
        return "lE"
    return "h" + hashlib.sha1((type(v).__name__ + repr(v)).encode()).hexdigest()[:8]


def leaves(d, prefix=()):
    """leaf paths of a nested dict in traversal order (what LayeredConfigTree.update walks)"""
    out = []
    for k, v in d.items():
        if isinstance(v, dict) and v:
            out += leaves(v, prefix + (k,))
        else:
            out.append([".".join(prefix + (k,)), v])
    return out


def nest(pairs):
    out = {}
    for path, v in pairs:
        node = out
        parts = path.split(".")
        for k in parts[:-1]:
            node = node.setdefault(k, {})
        node[parts[-1]] = v
    return out


def canon_pairs(pairs):
    """order in which a nested dict built from `pairs` is traversed (sections grouped at first appearance)"""
    return leaves(nest(pairs))


def preorder(forest):
    out = []
    for t in forest:
        out.append(t)
        out += preorder(t["c"])
    return out


def depth(forest):
    return 0 if not forest else 1 + max(depth(t["c"]) for t in forest)


def under(key, p) -> bool:
    return p == key or p.startswith(key + ".")


def strict_conflict(p, q) -> bool:
    return p != q and (under(p, q) or under(q, p))


def nestable(pairs) -> bool:
    """can the pairs be written as ONE nested dict (no path strictly below another one)"""
    ps = [p for p, _ in pairs]
    return not any(strict_conflict(a, b) for i, a in enumerate(ps) for b in ps[i + 1:])


def machine_tree(ids, col, states, transitions):
    """forest node for a real `Machine(col, states)`: machine -> states -> transition set -> transitions.
    states = [[state id, transient?]], transitions = [[from id, to id]]"""
    def nid():
        ids[0] += 1
        return ids[0] - 1
    sname = {sid: ("transient_state." if tr else "state.") + sid for sid, tr in states}
    m = {"id": nid(), "n": f"machine.{col}", "d": [], "c": [], "lib": ["machine", col]}
    for sid, tr in states:
        ts = {"id": nid(), "n": f"transition_set.{sid}", "d": [], "c": [], "lib": ["tset", sid]}
        for a, b in transitions:
            if a == sid:
                ts["c"].append({"id": nid(), "n": f"transition.'{sname[a]}'.'{sname[b]}'", "d": [], "c": [], "lib": ["transition", a, b]})
        m["c"].append({"id": nid(), "n": sname[sid], "d": [], "c": [ts], "lib": ["state", sid, tr]})
    return m


def falsy(t) -> bool:
    """is the component's truth value False (from the case alone)"""
    if t.get("lib"):
        return t["lib"][0] == "tset" and not t["c"]            # TransitionSet.__len__ == number of transitions
    return t.get("proto", "plain") in FALSY_PROTOS


def forced_outcomes(case):
    """what None / [] / () among the supplied components do on the code as it is (decided by experiment, see report):
    per stage either None (no effect) or the outcome the stage must have.
      * anything that is not a Component in the `components=` LIST -> the constructor's own check crashes: AttributeError
      * None anywhere else (add_components sequence, nested group, sub_components) -> _flatten raises TypeError, before
        anything of that call is registered;   [] and () there are empty groups: ignored"""
    out = []
    pos = 0
    stages = [case["n_spec"] + case["batches"][0]] + case["batches"][1:]
    tops = [case.get("ctor_holes") or []] + [a.get("holes") or [] for a in case["adds"]]
    for i, k in enumerate(stages):
        trees = case["forest"][pos:pos + k]
        pos += k
        nested_none = any(kind == "none" for t in preorder(trees) for _, kind in (t.get("holes") or []))
        if i == 0 and tops[0] and case["spec_via"] not in ("cdict", "clct"):
            out.append("other:AttributeError")
        elif nested_none or any(kind == "none" for _, kind in tops[i]) or has_gen(trees):
            out.append("other:TypeError")
        else:
            out.append(None)
    return out


def classify(e) -> str:
    """exception -> small enum; never looks at messages (exception classes and chaining only)"""
    from layered_config_tree import ConfigurationError, ConfigurationKeyError, DuplicatedConfigurationError
    from vivarium.framework.components.manager import ComponentConfigError
    from vivarium.framework.lifecycle import ConstraintError, InvalidTransitionError
    ctx = e.__context__
    if type(e).__name__ == "ProbeBoom":
        return "usererror"             # raised on purpose by a probe's sub_components / configuration_defaults / setup
    if isinstance(e, ComponentConfigError) or type(e) is ValueError:
        if isinstance(ctx, DuplicatedConfigurationError):
            return "dupvalue"          # apply_configuration_defaults: raised while handling the duplicate
        if isinstance(ctx, ConfigurationError):
            return "structure"         # … while handling "alter the structure of the configuration"
        if isinstance(e, ComponentConfigError) and ctx is None:
            return "dupname"           # OrderedComponentSet.add
    if isinstance(e, DuplicatedConfigurationError):
        return "dupvalue"
    if isinstance(e, ConfigurationKeyError):
        return "nolayer"
    if isinstance(e, ConstraintError):
        return "constraint"
    if isinstance(e, InvalidTransitionError):
        return "transition"
    if type(e) is ConfigurationError:
        return "cfgerr"                # frozen, or a shape conflict: the library uses one class for both
    return "other:" + type(e).__name__


def coarse(o: str) -> str:
    """model classes `frozen` / `structure` are one class (bare ConfigurationError) when raised by the library itself"""
    return "cfgerr" if o in ("frozen", "structure", "cfgerr") else o


def _read(cfg, path):
    from layered_config_tree import LayeredConfigTree
    node = cfg
    for k in path.split("."):
        if not isinstance(node, LayeredConfigTree) or k not in node:
            return None
        node = node[k]
    if isinstance(node, LayeredConfigTree):
        return "TREE"
    return tok(node)


def _write(cfg, path, val, how) -> str:
    """one write at the outermost layer through the public API of the configuration object"""
    from layered_config_tree import LayeredConfigTree
    parts = path.split(".")
    try:
        node = cfg
        for k in parts[:-1]:
            if isinstance(node, LayeredConfigTree) and k in node:
                node = node[k]
            else:
                node = None
                break
        if not isinstance(node, LayeredConfigTree):
            node = None
        if how == "update" or node is None or (how != "sub_update" and parts[-1] not in node):
            cfg.update(nest([[path, val]]))
        elif how == "sub_update":
            node.update({parts[-1]: val})
        elif how == "setattr":
            setattr(node, parts[-1], val)
        else:
            node[parts[-1]] = val
        return "ok"
    except Exception as e:  # noqa: BLE001
        return classify(e)


def _delete(cfg, key, how) -> str:
    """`del cfg.a.b` / `del cfg["a"]["b"]` -> ok (existed, gone) / refused (raised or still there) / absent"""
    from layered_config_tree import LayeredConfigTree
    parts = key.split(".")
    node = cfg
    for k in parts[:-1]:
        if not isinstance(node, LayeredConfigTree) or k not in node:
            return "absent"
        node = node[k]
    if not isinstance(node, LayeredConfigTree) or parts[-1] not in node:
        return "absent"
    try:
        if how == "delattr":
            delattr(node, parts[-1])
        else:
            del node[parts[-1]]
    except Exception:  # noqa: BLE001
        return "refused"
    return "refused" if parts[-1] in node else "ok"


# --------------------------------------------------------------------------------------------- running one simulation

def plugin_dict(plugins):
    """the `plugins` block for a case (None = defaults)"""
    out = {}
    if plugins["clock"] == "simple":
        out["required"] = {"clock": {"controller": "vivarium.framework.time.SimpleClock",
                                     "builder_interface": "vivarium.framework.time.TimeInterface"}}
    if plugins.get("opt"):
        out["optional"] = {"probe": {"controller": "vcheck.c20_probes.ProbeManager", "builder_interface": None}}
    return out


_SCRATCH = None


def scratch() -> str:
    """one scratch directory per process (outside /repo and /verif), removed at exit"""
    global _SCRATCH
    if _SCRATCH is None or not os.path.isdir(_SCRATCH):
        _SCRATCH = tempfile.mkdtemp(prefix="c20-")
        os.mkdir(os.path.join(_SCRATCH, "home"))
        atexit.register(shutil.rmtree, _SCRATCH, ignore_errors=True)
    return _SCRATCH


class _Home:
    """HOME -> a scratch directory (holding `vivarium.yaml` exactly when the case has one); the real home is never read"""

    def __init__(self, pairs):
        self.pairs = pairs

    def __enter__(self):
        import yaml
        self.dir = os.path.join(scratch(), "home")
        self.file = os.path.join(self.dir, "vivarium.yaml")
        if os.path.exists(self.file):
            os.unlink(self.file)
        if self.pairs is not None:
            with open(self.file, "w") as f:
                yaml.safe_dump(nest(self.pairs), f)
        self.old = os.environ.get("HOME")
        os.environ["HOME"] = self.dir
        return self.dir

    def __exit__(self, *a):
        if self.old is None:
            os.environ.pop("HOME", None)
        else:
            os.environ["HOME"] = self.old
        if os.path.exists(self.file):
            os.unlink(self.file)


_MGR_INFO = {}


def builtin_manager_info(clock):
    """[(name, [[path, token]…])] of the managers a context with this clock registers – a PARAMETER of the model
    (their defaults are none of the property's business); the oracle does not use it"""
    if clock not in _MGR_INFO:
        impl.load()
        from vivarium.framework.engine import SimulationContext
        with _Home(None):
            SimulationContext._clear_context_cache()
            sim = SimulationContext(components=[], plugin_configuration=plugin_dict({"clock": clock}) or None, logging_verbosity=0)
        _MGR_INFO[clock] = [[m.name, [[p, tok(v)] for p, v in leaves(m.configuration_defaults)]]
                            for m in sim._component_manager._managers]
    return _MGR_INFO[clock]


def model_managers(case):
    info = [list(x) for x in builtin_manager_info(case["plugins"]["clock"])]
    opt = case["plugins"].get("opt")
    if opt:
        info.append([opt["n"], [[p, tok(v)] for p, v in canon_pairs(opt["d"])]])
    return info


def expected_managers(case):
    """from the case and the property's anchors only"""
    names = [CLOCK_NAME[case["plugins"]["clock"]] if m == "<clock>" else m for m in BUILTIN_MGRS]
    opt = case["plugins"].get("opt")
    return names + ([opt["n"]] if opt else [])


def _specs(forest):
    out = {}
    for t in preorder(forest):
        out[str(t["id"])] = dict(t, c=[c["id"] for c in t["c"]])
    return out


def ctor_forest(case):
    return case["forest"][:case["n_spec"] + case["batches"][0]]


LAYERS = ["base", "user_configs", "component_configs", "model_override", "override"]   # configuration.py 81-99, lowest first


def _write_layer(cfg, path, val, layer, source) -> str:
    """`configuration.update({...}, layer=…, source=…)` before setup"""
    try:
        kw = {}
        if layer is not None:
            kw["layer"] = layer
        if source is not None:
            kw["source"] = source
        cfg.update(nest([[path, val]]), **kw)
        return "ok"
    except Exception as e:  # noqa: BLE001
        return classify(e)


class Run:
    """one simulation, driven step by step (so that a second one can be alive and be driven in between)"""

    def __init__(self, case, reuse=None, reuse_what=None):
        impl.load()
        from .. import c20_probes as cp
        self.cp, self.case = cp, case
        flat_nodes = preorder(case["forest"])
        deleter = flat_nodes[-1]["n"] if (case.get("delete") and flat_nodes and not flat_nodes[-1].get("lib")) else None
        self.st = cp.reset(specs=_specs(case["forest"] + [t for ev in case.get("faults") or [] for t in ev["forest"]]),
                           probes=case["probes"], attempts=case["attempts"], read=_read, write=_write,
                           delete_fn=_delete, delete=case.get("delete"), deleter=deleter, opt_manager=case["plugins"].get("opt") or {},
                           setup_boom=case.get("setup_boom"))
        self.prev = reuse
        self.reuse_what = reuse_what or ""
        if reuse is not None and "objects" in self.reuse_what:
            self.st["memo"] = reuse.st["memo"]            # the SAME component objects as the earlier simulation
        self.obs = {"stages": [], "pre": [], "setup": None, "values": None, "post": [], "late_add": None, "setup_twice": None,
                    "mutated": [], "faults": []}
        self.sim = None
        self.stage_args = []
        self.fault_args = {}
        self.ok = True

    # ---- constructor
    def ctor(self):
        import pathlib

        import yaml
        from layered_config_tree import LayeredConfigTree
        from vivarium.framework.engine import SimulationContext
        cp, case = self.cp, self.case
        cp.use(self.st)
        forest, n_spec = case["forest"], case["n_spec"]
        plug = plugin_dict(case["plugins"])
        block = None
        if n_spec:
            block = nest([[".".join(PROBE_PKG), [cp.spec_string(t) for t in forest[:n_spec]]]])
        ms = {}
        if case["ms"]:
            ms["configuration"] = nest(case["ms"])
        if block is not None and case["spec_via"] == "ms":
            ms["components"] = block
        if plug and case["plugins"].get("via") == "ms":
            ms["plugins"] = plug
        path = os.path.join(scratch(), "model_spec.yaml")
        reuse_args = self.prev is not None and "args" in self.reuse_what
        try:
            kind = case["ms_kind"]
            if kind is None:
                ms_arg = None
            elif kind in ("dict", "lct"):
                if reuse_args and self.prev.args.get("ms") is not None:
                    ms_arg = self.prev.args["ms"]             # the SAME argument object as the earlier simulation
                else:
                    ms_arg = ms if kind == "dict" else LayeredConfigTree(ms)
            else:
                with open(path, "w") as f:                    # always the same path, other content: nothing may be cached by path
                    yaml.safe_dump(ms, f)
                ms_arg = path if kind == "yaml_str" else pathlib.Path(path)
            if case["ov_kind"] is None:
                ov = None
            elif reuse_args and self.prev.args.get("ov") is not None:
                ov = self.prev.args["ov"]
            else:
                ov = LayeredConfigTree(nest(case["ov"])) if case["ov_kind"] == "lct" else nest(case["ov"])
            self.args = {"ms": ms_arg if kind in ("dict", "lct") else None, "ov": ov, "ms_kind": kind, "ms_want": ms}
            if case["spec_via"] == "cdict":
                comps = block
            elif case["spec_via"] == "clct":
                comps = LayeredConfigTree(block)
            else:
                comps = [cp.build(t) for t in forest[n_spec:n_spec + case["batches"][0]]]
                if case.get("ctor_holes"):
                    comps = cp.with_holes(comps, case["ctor_holes"])
                if not comps and case.get("no_list"):
                    comps = None
            self.stage_args.append(comps)
            plug_arg = plug if (plug and case["plugins"].get("via") != "ms") else None
            if plug_arg is not None and case["plugins"].get("arg_kind") == "lct":
                plug_arg = LayeredConfigTree(plug_arg)
            SimulationContext._clear_context_cache()
            with _Home(case.get("home")):
                try:
                    self.sim = SimulationContext(model_specification=ms_arg, components=comps, configuration=ov,
                                                 plugin_configuration=plug_arg, logging_verbosity=0)
                    out = "ok"
                except Exception as e:  # noqa: BLE001
                    out = classify(e)
        finally:
            if os.path.exists(path):
                os.unlink(path)
        sim = self.sim
        if sim is not None:
            cp.attach(sim.configuration, self.st)
        reg = [c.name for c in sim._component_manager._components] if sim is not None else None
        self.obs["stages"].append({"op": "ctor", "outcome": out, "registered": reg})
        self.ok = out == "ok"
        return self.ok

    # ---- add_components batches
    def adds(self):
        cp, case, sim = self.cp, self.case, self.sim
        if not self.ok:
            return False
        cp.use(self.st)
        forest = case["forest"]
        pos = case["n_spec"] + case["batches"][0]
        for stage, (k, how) in enumerate(zip(case["batches"][1:], case["adds"]), start=1):
            self.fault_events(stage)
            cp.use(self.st)
            objs = [cp.build(t) for t in forest[pos:pos + k]]
            pos += k
            if how.get("group") and len(objs) >= 2:          # nested list / tuple inside the supplied sequence
                objs = objs[:-2] + [[objs[-2], (objs[-1],)]]
            if how.get("holes"):
                objs = cp.with_holes(objs, how["holes"])
            arg = tuple(objs) if how.get("container") == "tuple" else objs
            j = how.get("same_list_as")
            if j is not None and j < len(self.stage_args) and isinstance(self.stage_args[j], (list, tuple)):
                arg = self.stage_args[j]                      # an exact repeat: the very same sequence object again
            self.stage_args.append(arg)
            try:
                sim.add_components(arg)
                out = "ok"
            except Exception as e:  # noqa: BLE001
                out = classify(e)
            self.obs["stages"].append({"op": "add", "outcome": out,
                                       "registered": [c.name for c in sim._component_manager._components] if out == "ok" else None})
            if out != "ok":
                self.ok = False
                return False
        self.fault_events(len(case["batches"]))
        self.obs["mgrs_live"] = [m.name for m in sim._component_manager._managers]
        return True

    # ---- batches the caller expects to be refused (lesson 16): the error is caught where a caller could catch it and the
    # SAME context is used further; after each one every probed key is read
    def fault_events(self, at):
        cp, case, sim = self.cp, self.case, self.sim
        for k, ev in enumerate(case.get("faults") or []):
            if ev["at"] != at:
                continue
            cp.use(self.st)
            j = ev.get("same_as")
            if j is not None and j in self.fault_args:
                arg = self.fault_args[j]                      # an exact repeat: the very same sequence object again
            else:
                objs = [cp.build(t) for t in ev["forest"]]    # (the same node id gives the same object as before)
                arg = tuple(objs) if ev.get("container") == "tuple" else objs
            self.fault_args[k] = arg
            try:
                sim.add_components(arg)
                out = "ok"
            except Exception as e:  # noqa: BLE001
                out = classify(e)
            self.obs["faults"].append({"k": k, "outcome": out, "registered": [c.name for c in sim._component_manager._components],
                                       "values": [[p, _read(sim.configuration, p)] for p in case["probes"]]})

    # ---- reads and writes before setup (any layer, with source strings, exact repeats)
    def pre(self):
        if not self.ok:
            return
        for op in self.case["pre"]:
            if op[0] == "r":
                self.obs["pre"].append([[p, _read(self.sim.configuration, p)] for p in self.case["probes"]])
            else:
                _, p, v, layer, source = op
                self.obs["pre"].append(_write_layer(self.sim.configuration, p, v, layer, source))

    # ---- setup
    def setup(self):
        cp, case, sim = self.cp, self.case, self.sim
        if not self.ok:
            return False
        LOG = self.st["log"]
        probes = case["probes"]
        for m in sim._component_manager._managers:            # observe manager setup: wrap the bound `setup`
            if isinstance(m, cp.ProbeManager):
                continue                                      # logs (and writes) by itself
            def w(builder, _orig=m.setup, _n=m.name):
                LOG.append(["mgr", _n, [_read(builder.configuration, p) for p in probes], []])
                return _orig(builder)
            m.setup = w
        try:
            sim.setup()
            out = "ok"
        except Exception as e:  # noqa: BLE001
            out = classify(e)
        deleted = self.st.get("deleted")
        self.obs["setup"] = {"outcome": out, "log": [["comp" if k == "comp" else "mgr", n] for k, n, _, _ in LOG],
                             "seen": [[n, s] for _, n, s, _ in LOG], "tried": [t for _, _, _, ts in LOG for t in ts],
                             "deleted": deleted[0] if deleted else None}
        self.ok = out == "ok"
        self.caught = out == "usererror" and bool(case.get("setup_boom"))   # the caller catches it and carries on
        return self.ok

    # ---- afterwards
    def post(self):
        cp, case, sim, obs = self.cp, self.case, self.sim, self.obs
        self.check_mutation()
        if not self.ok and not getattr(self, "caught", False):
            return
        LOG = self.st["log"]
        probes = case["probes"]
        obs["values"] = [[p, _read(sim.configuration, p)] for p in probes]
        handle = sim.configuration
        if case.get("post_handle") == "stored" and self.st["handles"]:
            handle = self.st["handles"][0]                    # the object a component kept from its setup
        for p, v, how in case["post"]:
            obs["post"].append(_write(handle, p, v, how))
        if case["late_add"]:
            n0 = len(LOG)
            self.st["specs"]["late"] = {"id": "late", "n": "zz_late", "d": [], "c": []}
            cp.use(self.st)
            try:
                sim.add_components([cp.Probe("late")])
                out = "ok"
            except Exception as e:  # noqa: BLE001
                out = classify(e)
            obs["late_add"] = {"outcome": out, "setup_calls": len(LOG) - n0,
                               "registered": "zz_late" in [c.name for c in sim._component_manager._components]}
        if case["setup_twice"]:
            n0 = len(LOG)
            try:
                sim.setup()
                out = "ok"
            except Exception as e:  # noqa: BLE001
                out = classify(e)
            obs["setup_twice"] = {"outcome": out, "setup_calls": len(LOG) - n0}
        obs["values_end"] = [[p, _read(sim.configuration, p)] for p in probes]

    def check_mutation(self):
        """did the framework write into an object that belongs to the user: a defaults dict a component returns every time,
        a class attribute CONFIGURATION_DEFAULTS, the dicts passed as arguments"""
        cp, case = self.cp, self.case
        mut = []
        for name, obj, pristine in self.st["dicts"]:
            if obj != pristine:
                mut.append("defaults-of:" + name)
        for t in preorder(case["forest"]):
            if not t.get("lib") and t.get("defs") == "class_attr" and cp.class_of(t).CONFIGURATION_DEFAULTS != nest(t["d"]):
                mut.append("class-attribute-of:" + t["n"])
        a = getattr(self, "args", None)
        if a:
            if isinstance(a["ov"], dict) and a["ov"] != nest(case["ov"]):
                mut.append("argument:configuration")
            if isinstance(a["ms"], dict) and a["ms"] != a["ms_want"]:
                mut.append("argument:model_specification")
        self.obs["mutated"] = sorted(set(mut))


def _run_single(case, prev=None, reuse_what=None):
    """the judged simulation (or an earlier one), optionally with a second simulation alive at the same time whose steps are
    interleaved with its own; returns the Run"""
    other_case = case.get("other")
    r = Run(case, reuse=prev, reuse_what=reuse_what)
    if not other_case:
        r.ctor(); r.adds(); r.pre(); r.setup(); r.post()     # noqa: E702
        refused = [o["k"] for o in r.obs["faults"] if o["outcome"] != "ok"]
        if refused:
            # the history in which the refused calls never happened (new objects, same everything else), for the
            # metamorphic clause of the oracle: what the refused calls could not legitimately write reads the same
            clean = dict(case, faults=[dict(ev, same_as=None) for k, ev in enumerate(case["faults"]) if k not in refused], other=None)
            try:
                c = Run(clean)
                c.ctor(); c.adds(); c.pre(); c.setup(); c.post()     # noqa: E702
                r.obs["clean"] = {"stages": [s_["outcome"] for s_ in c.obs["stages"]], "setup": c.obs["setup"] and c.obs["setup"]["outcome"],
                                  "log": c.obs["setup"] and [n for _, n in c.obs["setup"]["log"]], "values": c.obs["values"]}
            except Exception as e:  # noqa: BLE001
                r.obs["clean"] = {"crash": type(e).__name__}
        return r
    o = Run(fill(other_case))
    steps = {0: [], 1: [], 2: [], 3: [], 4: []}
    at = sorted(case.get("other_at") or [0, 1, 3])
    for fn, slot in zip((o.ctor, o.adds, lambda: (o.pre(), o.setup(), o.post())), at):
        steps[slot].append(fn)

    def run(slot):
        for fn in steps[slot]:
            try:
                fn()
            except Exception:  # noqa: BLE001
                pass
    run(0); r.ctor(); run(1); r.adds(); run(2); r.pre(); r.setup(); run(3); r.post(); run(4)     # noqa: E702
    return r


# every judged simulation is preceded, inside run_impl (so also in a replay), by this one: same names, same probe classes,
# an optional manager, a ~/vivarium.yaml that sets EVERY pool key, user values, a deletion – anything that leaks out of
# it (module-level caches, class attributes, mutable defaults) shows up as a value nobody supplied
def _warmup_case():
    N = lambda i, n, d, c=(), **k: dict({"id": i, "n": n, "d": d, "c": list(c), "sub": "list", "defs": "property"}, **k)   # noqa: E731
    return fill({
        "forest": [N(0, "c0", [["s1.k0", 906]], [N(1, "c1", [["s1.k1", 907]], defs="class_attr")], sub="tuple"), N(2, "c2", [["t1", 908]], defs="class_attr")],
        "n_spec": 1, "spec_via": "ms", "batches": [0, 1], "ms": [["s0.k1", 909], ["leak.m", 910]], "ms_kind": "yaml_str",
        "ov": [["s0.k2", 911], ["leak.o", 912], ["population.population_size", 913]], "ov_kind": "dict",
        "home": [[p, 920 + i] for i, p in enumerate(POOL + ["h.k0", "h.k1", "fresh.k0", "late.k0", "early.k0", "absent.k", "leak.h"])],
        "plugins": {"clock": "simple", "opt": {"n": "probe_manager", "d": [["pm.k0", 914]]}, "via": "arg", "arg_kind": "dict"},
        "probes": ["s0.k0"], "attempts": [["c0", "leak.w", 915, "update"]], "pre": [["leak.p", 916]], "post": [["leak.q", 917, "update"]],
        "late_add": False, "setup_twice": False, "delete": ["s2", "delattr"]})


def _run(case):
    try:
        _run_single(_warmup_case())
    except Exception:  # noqa: BLE001
        pass
    prev = None
    for b in case.get("before", []):                     # earlier simulations in the same process really run
        try:
            prev = _run_single(b)
        except Exception:  # noqa: BLE001
            prev = None
    return _run_single(case, prev=prev if case.get("reuse") else None, reuse_what=case.get("reuse")).obs


def _enc_defs(pairs, tokens=False):
    """`tokens`: the values are protocol tokens already (manager info), otherwise raw configuration values"""
    return ";".join(f"{p}={v if tokens else tok(v)}" for p, v in pairs) if pairs else "-"


def _enc_forest(forest):
    nodes = [f"{t['n']}:{len(t['c'])}:{_enc_defs(canon_pairs(t['d']))}" for t in preorder(forest)]
    return f"{len(forest)} {','.join(nodes) if nodes else '-'}"


def F_MGR_NAMES(case):
    """names of the managers of THIS simulation (from the case and the property's anchors)"""
    return expected_managers(case)


def _fault_token(ev):
    """which of the user's properties raises while the batch is registered: - | sub | defs:<index in flattening order>
    (node field "boom"; `_flatten` reads every sub_components before the first component is registered)"""
    flat = preorder(ev["forest"])
    if any(t.get("boom") == "sub" for t in flat):
        return "sub"
    for i, t in enumerate(flat):
        if t.get("boom") == "defs":
            return f"defs:{i}"
    return "-"


def has_gen(forest):
    return any(t.get("sub") == "gen" for t in preorder(forest))


def fill(case):
    """defaults for the fields a hand-written / older case may omit"""
    c = dict(case)
    c.setdefault("n_spec", 0)
    c.setdefault("spec_via", None)
    c.setdefault("adds", [{"container": "list", "group": False}] * (len(c["batches"]) - 1))
    c.setdefault("home", None)
    c.setdefault("ctor_holes", [])
    c.setdefault("plugins", {"clock": "datetime", "opt": None})
    c.setdefault("post_handle", "sim")
    c.setdefault("delete", None)
    c.setdefault("before", [])
    c.setdefault("reuse", None)
    c.setdefault("other", None)
    c.setdefault("setup_boom", None)
    c["faults"] = [dict(ev, at=max(1, min(len(c["batches"]), ev["at"]))) for ev in c.get("faults") or []]
    c["pre"] = [op if op[0] in ("w", "r") and len(op) in (1, 5) else ["w", op[0], op[1], None, None] for op in c["pre"]]
    return c


class C20(Prop):
    id = "C20"
    lean_modules = ["VivModel.Props.C20", "VivModel.Props.C20Src"]
    build_targets = ["VivModel.Model.Components", "VivModel.Model.Proto"]
    driver = "C20"
    technique = ("Lean 4 proof (refinement of the explicit-stack loop to the pre-order traversal; invariants over registration "
                 "and over the interpreted setup skeleton; decide over the layer / update / skeleton tables regenerated from "
                 "configuration.py, components/manager.py and engine.py) + exact correspondence on real SimulationContexts")
    trusted_extra = ["layered_config_tree (third party) is modelled as layered lookup over (layer, leaf path) entries: one value per "
                     "layer and path, outermost layer wins, one tree shape for all layers, freeze() makes every write raise, deletion "
                     "ignores freeze() (F18); update(dict) applies the dictionary key by key and keeps what was written before a refusal"]
    partial = ("frozen_after_setup_partial covers writes (update / assignment); deletion after freeze() is the recorded finding F18 "
               "(config-delete-after-freeze), reproduced by the model and replayed on every run")
    n_quick = 1100
    n_thorough = 8000
    workers = 1
    rule = ("each case is one real SimulationContext (preceded by 0-2 earlier simulations in the same process): a forest of probe "
            "components supplied through every route (specification block / components= dict / list / add_components batches), "
            "every sub_components container, both ways of declaring defaults; configuration through every route (dict / "
            "LayeredConfigTree / YAML file / ~/vivarium.yaml in a temp HOME / override argument / plugin configuration) with values "
            "of every YAML-able type over shared key paths; one injected fault in about half of the cases; about a third of the "
            "cases are fault histories (1-5 add_components calls that are refused - duplicate name, clashing default, structure, "
            "a raising property -, caught, followed by reads, corrected batches, exact repeats, the remaining stages and setup; "
            "sometimes a setup() that raises and is caught); distinct by case hash; "
            "non-trivial = accepted with nesting and a user value over a default, or rejected because of a clash below the top level")

    # ------------------------------------------------------------------ generation
    def _tree(self, rng, d, names, ids, budget):
        n = {"id": ids[0], "n": names.pop(), "d": [], "c": [], "sub": rng.choice(SUBS), "defs": rng.choice(["property", "property_same", "class_attr"]),
             "proto": rng.choice(PROTOS) if rng.random() < self._proto_rate else "plain"}
        ids[0] += 1
        budget[0] -= 1
        if d < 4:
            for _ in range(rng.choice([0, 0, 1, 1, 2, 3]) if d > 1 else rng.choice([0, 1, 2, 2, 3])):
                if budget[0] <= 0 or not names:
                    break
                n["c"].append(self._tree(rng, d + 1, names, ids, budget))
        return n

    @staticmethod
    def _value(rng, rate_falsy, rate_odd, lo, hi):
        r = rng.random()
        if r < rate_falsy:
            return copy.deepcopy(rng.choice(FALSY))
        if r < rate_falsy + rate_odd:
            return copy.deepcopy(rng.choice(ODD))
        return rng.randint(lo, hi)

    def generate(self, rng: random.Random, i: int, tier: str):
        case = self._gen(rng, allow_before=True)
        # lesson 16: about a third of the cases become FAULT HISTORIES. The decision and everything about the faults is drawn
        # from a generator of its own (seeded by the case), so the main stream - and with it every other case - is unchanged.
        frng = random.Random("faults:" + hashlib.sha1(repr(case).encode()).hexdigest())
        F = self._facts(case)
        valid = not F["must_reject"] and not F["conflict_user"]
        if not valid:                                            # a base case that is refused itself: only when its constructor is
            c0 = fill(case)                                      # not, so that the caught calls before the refused stage happen
            sub = dict(c0, forest=ctor_forest(c0), batches=[c0["batches"][0]], adds=[])
            F0 = self._facts(sub)
            ctor_ok = not F0["must_reject"] and not F0["may_reject"] and len(c0["batches"]) > 1
        if frng.random() < (0.45 if valid else 0.3 if ctor_ok else 0.0):
            case = self._add_faults(frng, case)
        return case

    FAULT_KINDS = ["dupname-registered", "dupname-registered", "dupname-internal", "dupvalue-component", "dupvalue-component",
                   "dupvalue-manager", "dupvalue-user-key-first", "structure-deeper", "structure-shallower", "structure-user-key",
                   "boom-sub", "boom-defs", "valid", "manager-name"]

    def _add_faults(self, rng, case):
        """turn a generated case into a fault history: 1-3 add_components calls that the code must / may refuse, inserted
        between the ordinary stages, the harness catching the error and carrying on; follow-ups: the corrected batch (new
        objects, or the same objects for the members that were all right), the refused batch once more verbatim (the same
        list object), an unrelated valid batch; sometimes a component whose setup() raises. The user supplies values for
        keys that only the refused components default (so that what a refusal leaves behind - or takes back - sits under a
        user value), and every key any of them touches is read after every call, during setup and afterwards."""
        case = fill(copy.deepcopy(case))
        # what does not combine with a fault history (kept simple on purpose; the ordinary cases cover it)
        case["other"], case["reuse"], case["delete"], case["ctor_holes"] = None, None, None, []
        for a in case["adds"]:
            a["holes"] = []
        for t in preorder(case["forest"]):
            if not t.get("lib"):
                t["holes"] = []
                if t.get("sub") == "gen":
                    t["sub"] = "list"
        ids, names = [1000], [f"r{k}" for k in range(40)]
        if len(case["batches"]) <= 2 and rng.random() < 0.35:   # one more ordinary batch at the end: calls are refused BETWEEN batches,
            for _ in range(rng.choice([1, 1, 2])):              # and a valid batch that comes after them must still be accepted
                case["forest"].append({"id": 900 + len(case["forest"]), "n": names.pop(), "d": [], "c": [], "sub": "list", "defs": "property",
                                       "proto": "plain", "holes": []})
                case["batches"].append(1)
                case["adds"].append({"container": rng.choice(["list", "tuple"]), "group": False, "holes": []})
        m = len(case["batches"])
        cuts = [case["n_spec"] + case["batches"][0]] + case["batches"][1:]
        opt = case["plugins"].get("opt") or {"n": None, "d": []}
        # keys only the refused components will default, some of them supplied by the user (override argument / model specification)
        fresh = [f"fz{a}.k{b}" for a in range(3) for b in range(3)] + ["fz3.d.k0", "fz3.d.k1", "fz4"]
        rng.shuffle(fresh)
        user_new = []
        for q in fresh[:rng.choice([1, 2, 2, 3])]:
            tgt = rng.choice(["ov", "ov", "ms"])
            v = self._value(rng, 0.25, 0.15, 500, 599)
            case[tgt].append([q, v])
            user_new.append(q)
        case["ov"], case["ms"] = canon_pairs(case["ov"]), canon_pairs(case["ms"])
        if case["ov"] and case["ov_kind"] is None:
            case["ov_kind"] = rng.choice(["dict", "lct"])
        if case["ms"] and case["ms_kind"] is None:
            case["ms_kind"] = rng.choice(["dict", "lct", "yaml_str"])
        main_paths = [q for t in preorder(case["forest"]) for q, _ in t["d"]] + [q for q, _ in opt["d"]] + list(MGR_PATHS)
        user_only = user_new + [q for q, _ in case["ov"] + case["ms"] if q not in user_new and not self._touch(q, main_paths)
                                and not any(under(sec, q) for sec in ("population", "randomness", "time", "interpolation", "stratification", "input_data"))]
        spare = fresh[3:]

        def node(d=(), c=(), name=None, **kw):
            ids[0] += 1
            return dict({"id": ids[0] - 1, "n": name or names.pop(0), "d": [list(x) for x in d], "c": list(c),
                         "sub": rng.choice(["list", "tuple", "copy"]), "defs": rng.choice(["property", "property", "property_same", "class_attr"]),
                         "proto": "plain", "holes": []}, **kw)

        def good(k):
            """k keys a refused component can really write: the user's own keys first of all, fresh ones"""
            out = []
            for _ in range(k):
                pool_ = (user_only * 2 + spare) if rng.random() < 0.8 else spare
                q = rng.choice(pool_) if pool_ else None
                if q is not None and all(q != x and not strict_conflict(q, x) for x, _ in out):
                    out.append([q, rng.randint(600, 699)])
            return out
        faults = []
        n_ev = rng.choice([1, 1, 2, 2, 3])
        for _ in range(n_ev):
            at = rng.randint(1, m)
            reg = preorder(case["forest"][:sum(cuts[:at])])           # main components registered before the event (if all goes well)
            reg_names = [t["n"] for t in reg]
            reg_paths = [q for t in reg for q, _ in t["d"]]
            kind = rng.choice(self.FAULT_KINDS)
            lead = [node(good(rng.choice([0, 1, 1, 2]))) for _ in range(rng.choice([0, 0, 1, 2]))]
            tail = [node(good(rng.choice([0, 1]))) for _ in range(rng.choice([0, 0, 1]))]
            d = good(rng.choice([0, 1, 2, 2]))
            more = good(rng.choice([0, 0, 1]))
            off, clash = None, None
            if kind == "dupname-registered" and reg_names:
                off = node(d + more, name=rng.choice(reg_names))
            elif kind == "dupname-internal":
                lead = lead or [node(good(1))]
                off = node(d + more, name=rng.choice(lead)["n"])
            elif kind == "dupvalue-component" and reg_paths:
                clash = rng.choice(reg_paths)
                off = node(d + [[clash, rng.randint(700, 799)]] + more)
            elif kind == "dupvalue-manager":
                clash = rng.choice(list(MGR_PATHS) + [x for x, _ in opt["d"]])
                off = node(d + [[clash, rng.randint(1, 9)]] + more)
            elif kind == "dupvalue-user-key-first" and user_only:
                clash = rng.choice(reg_paths + list(MGR_PATHS))
                first = [[rng.choice(user_only), rng.randint(600, 699)]]
                off = node(first + [x for x in d if x[0] != first[0][0] and not strict_conflict(x[0], first[0][0])] + [[clash, rng.randint(700, 799)]])
            elif kind == "structure-deeper" and reg_paths:
                clash = rng.choice(reg_paths) + ".deep"
                off = node(d + [[clash, 1]] + more)
            elif kind == "structure-shallower":
                clash = rng.choice([x for x in reg_paths + list(MGR_PATHS) if "." in x]).rsplit(".", 1)[0]
                off = node(d + [[clash, 1]] + more)
            elif kind == "structure-user-key" and user_only:
                q = rng.choice(user_only)                             # a default BELOW / ABOVE a key the user supplied
                clash = q + ".deep" if (rng.random() < 0.6 or "." not in q) else q.rsplit(".", 1)[0]
                off = node([x for x in d if not strict_conflict(x[0], clash) and x[0] != clash] + [[clash, 1]]
                           + [x for x in more if not strict_conflict(x[0], clash) and x[0] != clash])
            elif kind == "boom-sub":
                off = node(d, boom="sub")
            elif kind == "boom-defs":
                off = node(d, boom="defs", defs="property")
            elif kind == "manager-name":
                off = node(d, name=rng.choice(F_MGR_NAMES(case)))
            if off is None:
                kind = "valid"
                off = node(d)
            keep = []
            for x in off["d"]:                                        # one nested dictionary: no key twice, none below another one
                if all(x[0] != y[0] and not strict_conflict(x[0], y[0]) for y in keep):
                    keep.append(x)
            off["d"] = canon_pairs(keep)
            trees = lead + [off] + tail
            if rng.random() < 0.35 and lead:                          # the offending component deep in a tree
                host = rng.choice(lead)
                host["c"].append(off)
                trees = lead + tail
                if rng.random() < 0.4 and tail:
                    off["c"].append(tail[0])
                    trees = lead
            ev = {"at": at, "forest": trees, "container": rng.choice(["list", "list", "tuple"]), "kind": kind}
            faults.append(ev)
            r = rng.random()
            if r < 0.3:                                               # the corrected batch
                fixed = copy.deepcopy(trees)
                same_objects = rng.random() < 0.5                     # the members that were all right: the same objects / new ones
                off_pos = [t["id"] for t in preorder(trees)].index(off["id"])
                for t in preorder(fixed):
                    if t["id"] == off["id"]:
                        t.pop("boom", None)
                        ids[0] += 1
                        t["id"] = ids[0] - 1
                        if kind.startswith("dupname") or kind == "manager-name":
                            t["n"] = names.pop(0)
                        t["d"] = [x for x in t["d"] if x[0] != clash]
                    elif not same_objects or any(x["id"] == off["id"] for x in preorder(t["c"])):
                        ids[0] += 1                                   # (an object whose sub-components changed is a new object)
                        t["id"] = ids[0] - 1
                if rng.random() < 0.5:                                # only what the refused call did not register
                    n_before = 0
                    rest = []
                    for t in fixed:
                        k_ = len(preorder([t]))
                        if n_before + k_ > off_pos:
                            rest.append(t)
                        n_before += k_
                    fixed = rest or fixed
                faults.append({"at": rng.randint(at, m), "forest": fixed, "container": "list", "kind": "corrected"})
            elif r < 0.45:                                            # the refused batch once more, verbatim
                faults.append({"at": rng.randint(at, m), "forest": trees, "container": ev["container"], "kind": "verbatim", "same_as": len(faults) - 1})
            elif r < 0.6:                                             # something unrelated and valid in between
                faults.append({"at": rng.randint(at, m), "forest": [node([[spare.pop(), rng.randint(600, 699)]] if spare and rng.random() < 0.6 else [])],
                               "container": "list", "kind": "valid"})
        faults.sort(key=lambda e: e["at"])                            # (stable) events of one slot keep their order
        for k, e in enumerate(faults):                                # same_as refers to positions: recompute after sorting
            if e.get("same_as") is not None:
                j = next((j for j, e2 in enumerate(faults[:k]) if e2["forest"] is e["forest"] and e2.get("same_as") is None), None)
                e["same_as"] = j
        case["faults"] = faults
        if rng.random() < 0.15:                                       # a component / the optional manager whose setup raises
            cands = [t["n"] for t in preorder(case["forest"]) if not t.get("lib")] + ([opt["n"]] if opt["n"] else []) \
                + [t["n"] for e in faults if e["kind"] in ("valid", "corrected") for t in preorder(e["forest"])]
            if cands:
                case["setup_boom"] = rng.choice(cands)
        # read every key any call of the history touches (never an interior key), the user's keys first
        touched = user_new + [q for e in faults for t in preorder(e["forest"]) for q, _ in t["d"]]
        every = [q for e in faults for t in preorder(e["forest"]) for q, _ in t["d"]] + [q for t in preorder(case["forest"]) for q, _ in t["d"]] \
            + [q for q, _ in case["ov"] + case["ms"] + (case["home"] or [])] + list(MGR_PATHS) + [a[1] for a in case["attempts"]] \
            + [op[1] for op in case["pre"] if op[0] == "w"] + [x[0] for x in case["post"]] + [x for x, _ in opt["d"]]
        probes = []
        for q in touched + case["probes"]:
            if q not in probes and not any(strict_conflict(q, x) and under(q, x) for x in every):
                probes.append(q)
        case["probes"] = probes[:20]
        case["mode"] = (case["mode"] + "+" if case.get("mode") else "") + "fault-history"
        return case

    _proto_rate = 0.3

    def _gen(self, rng, allow_before, like=None):
        names = [f"c{k}" for k in range(24)]
        rng.shuffle(names)
        self._proto_rate = rng.choice([0.0, 0.2, 0.5, 1.0])
        ids, budget = [0], [rng.choice([1, 3, 6, 10, 16])]
        forest = []
        for _ in range(rng.choice([0, 1, 1, 2, 2, 3, 4, 5, 6])):
            if budget[0] <= 0:
                break
            forest.append(self._tree(rng, 1, names, ids, budget))
        if like is None and rng.random() < 0.22:                 # real library components: state machines (the transition set
            used_states = []                                     # of every terminal state is an EMPTY container, hence falsy)
            for k in range(rng.choice([1, 1, 2])):
                pool_ids = ["x", "y", "z", "w", "v", "u"]
                fresh_ids = [i for i in pool_ids if i not in used_states] or pool_ids
                sids = rng.sample(fresh_ids, min(len(fresh_ids), rng.randint(1, 3)))
                if used_states and rng.random() < 0.25:
                    sids[0] = rng.choice(used_states)            # two machines share a state id: duplicate names
                used_states += sids
                states = [[sid, rng.random() < 0.25] for sid in sids]
                pairs = [[a, b] for a in sids for b in sids if a != b]
                rng.shuffle(pairs)
                trans = pairs[:rng.randint(0, min(3, len(pairs)))]
                m = machine_tree(ids, f"m{k}" if rng.random() < 0.9 else "m0", states, trans)
                hosts = [t for t in preorder(forest) if not t.get("lib")]
                if hosts and rng.random() < 0.4:
                    rng.choice(hosts)["c"].append(m)             # a machine as sub-component of a probe
                else:
                    forest.append(m)
        if like is not None:                                     # an earlier simulation: same names, classes and keys
            forest = copy.deepcopy(like["forest"])
            rng.shuffle(forest)
        every = preorder(forest)
        flat = [t for t in every if not t.get("lib")]            # nodes the generator may edit (library nodes are what they are)
        pool = POOL[:]
        rng.shuffle(pool)
        pool = pool[:rng.choice([3, 5, 8, len(pool)])]
        rate_falsy, rate_odd = rng.choice([(0.0, 0.0), (0.3, 0.1), (0.2, 0.4), (0.6, 0.2), (1.0, 0.0)])
        if like is None:
            free = pool[:]
            for t in flat:                                       # defaults: globally distinct paths unless a fault is injected
                for _ in range(rng.choice([0, 0, 1, 1, 2])):
                    if free:
                        t["d"].append([free.pop(), self._value(rng, 0.0, rate_odd / 2, 1, 9)])
        elif rng.random() < 0.7:                                 # same keys, other values (same class only if values repeat)
            for t in flat:
                t["d"] = [[p, self._value(rng, 0.0, 0.2, 1, 9)] for p, _ in t["d"]]
        plugins = {"clock": rng.choice(["datetime", "datetime", "simple"]), "opt": None, "via": rng.choice(["arg", "arg", "ms"]),
                   "arg_kind": rng.choice(["dict", "lct"])}
        if rng.random() < 0.3:
            plugins["opt"] = {"n": "probe_manager", "d": [[p, rng.randint(1, 9)] for p in rng.sample(["pm.k0", "pm.k1", "pm.sub.k"], rng.randint(0, 2))]}
        fault = rng.random() if like is None else 1.0
        tag = None
        if flat and fault < 0.12 and len(every) >= 2:           # duplicate name, distinct objects, random depth
            b = rng.choice(flat)
            a = rng.choice([t for t in every if t is not b])    # possibly the name of a library component (e.g. an empty transition set)
            b["n"] = a["n"]
        elif flat and fault < 0.18:                              # the same object supplied twice (whole subtree shared)
            a = rng.choice([t for t in flat if not any(x.get("lib") for x in preorder([t]))] or flat)
            host = rng.choice([None] + [t for t in flat if t is not a and not self._inside(a, t)])
            (forest if host is None else host["c"]).append(a)
        elif flat and fault < 0.26:                              # a component named like a framework manager
            rng.choice(flat)["n"] = rng.choice(MGR_NAMES)
        elif flat and fault < 0.38 and len(flat) >= 2:           # two components default the same key
            a, b = rng.sample(flat, 2)
            if not a["d"]:
                a["d"].append([rng.choice(pool), rng.randint(1, 9)])
            p, v = rng.choice(a["d"])
            if all(q != p for q, _ in b["d"]):
                b["d"].append([p, copy.deepcopy(v) if rng.random() < 0.3 else rng.randint(10, 19)])
        elif flat and fault < 0.43:                              # a component defaults a key a manager defaults
            p = rng.choice(list(MGR_PATHS))
            rng.choice(flat)["d"].append([p, copy.deepcopy(rng.choice(MGR_PATHS[p]))])
        elif flat and fault < 0.50:                              # the same key at different depths (component vs component / manager)
            a = rng.choice(flat)
            base = rng.choice([p for t in flat for p, _ in t["d"]] + list(MGR_PATHS) + [rng.choice(pool)])
            if all(q != base for t in flat for q, _ in t["d"]) and base not in MGR_PATHS:
                a["d"].append([base, rng.randint(1, 9)])
            b = rng.choice(flat)
            q = base + ".deep" if (rng.random() < 0.5 or "." not in base) else base.rsplit(".", 1)[0]
            if nestable(b["d"] + [[q, 0]]) and all(x != q for x, _ in b["d"]):
                b["d"].append([q, rng.randint(1, 9)])
            tag = "prefix"
        elif fault < 0.56:                                       # the optional manager clashes: name of a built-in manager / of a
            kind = rng.choice(["builtin-name", "component-name", "builtin-default", "component-default"])   # component, their defaults
            plugins["opt"] = plugins["opt"] or {"n": "probe_manager", "d": []}
            if kind == "builtin-name":
                plugins["opt"]["n"] = rng.choice(["population_manager", "results_manager", CLOCK_NAME[plugins["clock"]]])
            elif kind == "component-name" and flat:
                plugins["opt"]["n"] = rng.choice(flat)["n"]
            elif kind == "builtin-default":
                p = rng.choice(list(MGR_PATHS))
                plugins["opt"]["d"] = [[p, copy.deepcopy(rng.choice(MGR_PATHS[p]))]]
            elif flat:
                t = rng.choice(flat)
                if not t["d"]:
                    t["d"].append([rng.choice(pool), rng.randint(1, 9)])
                plugins["opt"]["d"] = [list(rng.choice(t["d"]))]
        elif flat and fault < 0.58:                              # outside the signature: sub_components is a generator
            rng.choice(flat)["sub"] = "gen"
        if like is None and len(flat) >= 2 and rng.random() < 0.08:   # two parents return the very same list object
            a = rng.choice(flat)
            cands = [t for t in flat if t is not a and not self._inside(a, t) and not self._inside(t, a) and not t["c"]]
            if cands and a.get("sub") != "fresh" and not any(x.get("lib") for x in preorder(a["c"])):
                b = rng.choice(cands)
                b["c"] = a["c"]                                  # (same node dicts: same ids, same objects)
                b["share"] = a["id"]
                b["sub"] = rng.choice(["list", "tuple", "copy"])
        for t in flat:
            t["d"] = canon_pairs(t["d"]) if nestable(t["d"]) else t["d"][:1]
        if like is None:
            rng.shuffle(forest)                                  # supply order is random
        flat = preorder(forest)                                  # from here on: every node, library ones included
        defaulted = [p for t in flat for p, _ in t["d"]] + [p for p, _ in (plugins["opt"] or {"d": []})["d"]]
        cand = defaulted * 2 + pool + list(MGR_PATHS)
        if like is not None:                                     # aim at what the main simulation leaves to defaults / leaves unset
            cand = cand + [p for p in like["probes"] if p not in MGR_PATHS] * 2

        def pick(k, base, allow_mgr=True):
            out, seen = [], set()
            for _ in range(k):
                p = rng.choice(base) if base else None
                if p is None or p in seen or (p in MGR_PATHS and not allow_mgr):
                    continue
                seen.add(p)
                if p in MGR_PATHS:
                    v = copy.deepcopy(rng.choice(MGR_PATHS[p]))
                else:
                    v = self._value(rng, rate_falsy, rate_odd, 20, 99)
                out.append([p, v])
            return out if nestable(out) else out[:1]
        ms = pick(rng.choice([0, 1, 2, 4]), cand)
        ov = pick(rng.choice([0, 1, 2, 4]), cand + [p for p, _ in ms] * 2)
        home = pick(rng.choice([1, 2, 4]), cand + ["h.k0", "h.k1"], allow_mgr=False) if rng.random() < 0.3 else None
        if rng.random() < 0.08 and defaulted:                    # a user value at another depth than a default / another user value
            base = rng.choice(defaulted + [p for p, _ in ms])
            q = base + ".deep" if (rng.random() < 0.5 or "." not in base) else base.rsplit(".", 1)[0]
            tgt = rng.choice([ms, ov] + ([home] if home is not None else []))
            if all(x != q for x, _ in tgt) and nestable(tgt + [[q, 0]]) and not any(under(q, m) for m in MGR_PATHS):
                tgt.append([q, rng.randint(20, 99)])
        if rng.random() < 0.1:                                   # one key carried as 1 / 1.0 / True / "1" / [1] / None by the different writers
            reps = [1, 1.0, True, "1", [1], None, 0, False, "", "1.0"]
            rng.shuffle(reps)
            plain = [t for t in flat if not t.get("lib")]
            key = rng.choice([p for p in defaulted if p not in MGR_PATHS and not p.startswith("pm.")] or [rng.choice(pool)])
            for t in plain:
                t["d"] = [[p, reps[0]] if p == key else [p, v] for p, v in t["d"]]
            for lst, rep_ in ((ms, reps[1]), (ov, reps[2])):
                if rng.random() < 0.7 and nestable(lst + [[key, 0]]):
                    lst[:] = [x for x in lst if x[0] != key] + [[key, rep_]]
            if rng.random() < 0.5:
                home = [x for x in (home or []) if x[0] != key] + [[key, reps[3]]]
                home = home if nestable(home) else [[key, reps[3]]]
            tag = (tag + "+" if tag else "") + "hetero"
        ms, ov = canon_pairs(ms), canon_pairs(ov)
        home = canon_pairs(home) if home is not None else None
        # ---- routes for the components
        n = len(forest)
        n_spec, spec_via = 0, None
        r = rng.random()
        n_plain = len([t for t in forest if not t.get("lib")])
        if n_plain and r < 0.45:
            forest.sort(key=lambda t: 1 if t.get("lib") else 0)  # (stable) a Machine cannot be a string of the specification block
            n_spec = rng.randint(1, n_plain) if rng.random() < 0.4 else rng.randint(1, max(1, n_plain - 1))
            spec_via = rng.choice(["ms", "ms", "cdict", "clct"])
        rest = n - n_spec
        mode = rng.random()
        if spec_via in ("cdict", "clct"):
            k0 = 0
        elif mode < 0.4 or rest == 0:
            k0 = rest
        elif mode < 0.55 or rest == 1:
            k0 = 0
        else:
            k0 = rng.randint(1, rest - 1)
        left = rest - k0
        batches = [k0]
        want = rng.choice([1, 1, 2, 3])                           # several add_components calls, not one by luck
        while left > 0:
            k = left if len(batches) >= want else rng.randint(1, max(1, left - (want - len(batches))))
            batches.append(k)
            left -= k
        if left == 0 and rng.random() < 0.05:
            batches.append(0)                                    # add_components([])
        adds = [{"container": rng.choice(["list", "tuple"]), "group": rng.random() < 0.5, "holes": []} for _ in batches[1:]]
        ctor_holes = []
        if rng.random() < 0.12:                                  # None / [] / () among the components
            kind = rng.choice(HOLES)
            where = rng.choice(["sub", "sub", "add", "add", "ctor"])
            plain = [t for t in flat if not t.get("lib")]
            if where == "sub" and plain:
                t = rng.choice(plain)
                t["holes"] = [[rng.randint(0, len(t["c"])), kind]]
            elif where == "add" and adds:
                j = rng.randrange(len(adds))
                adds[j]["holes"] = [[rng.randint(0, batches[j + 1]), kind]]
            elif where == "ctor" and spec_via not in ("cdict", "clct"):
                ctor_holes = [[rng.randint(0, batches[0]), kind]]
        need_ms = bool(ms) or spec_via == "ms" or (plugins["via"] == "ms" and bool(plugin_dict(plugins)))
        ms_kind = rng.choice(["dict", "lct", "yaml_str", "yaml_path"]) if need_ms else rng.choice([None, None, "dict", "yaml_str"])
        ov_kind = rng.choice(["dict", "lct"]) if ov else rng.choice([None, None, "dict"])
        names_flat = [t["n"] for t in flat if not t.get("lib")] + ([plugins["opt"]["n"]] if plugins["opt"] else [])
        attempts = []
        for _ in range(rng.choice([0, 0, 1, 2, 3])):
            if names_flat:
                attempts.append([rng.choice(names_flat), rng.choice(cand + ["fresh.k0", "s0.fresh"]), rng.randint(100, 199),
                                 rng.choice(HOWS)])
        pre = []
        if rng.random() < 0.3:                                   # a history before setup: writes at any layer (with source strings),
            keys = [p for p in cand + ["early.k0", "early.k1"] if p not in MGR_PATHS and not any(under(m.split(".")[0], p) for m in MGR_PATHS)]
            keys = rng.sample(keys, min(len(keys), 2)) if keys else ["early.k0"]     # reads in between, exact repeats, both layer orders
            for _ in range(rng.randint(1, 6)):
                r = rng.random()
                writes = [op for op in pre if op[0] == "w"]
                if r < 0.25:
                    pre.append(["r"])
                elif r < 0.5 and writes:                         # repeat an earlier write: verbatim / same key+layer other value / other layer
                    _, p, v, layer, src = rng.choice(writes)
                    how = rng.choice(["verbatim", "value", "layer", "layer"])
                    if how == "value":
                        v = self._value(rng, 0.2, 0.3, 200, 299)
                    elif how == "layer":
                        layer = rng.choice([l for l in LAYERS if l != (layer or LAYERS[-1])])
                    pre.append(["w", p, copy.deepcopy(v), layer, src])
                else:
                    layer = rng.choice(LAYERS + [None, None, "override", "base"])
                    pre.append(["w", rng.choice(keys), self._value(rng, 0.15, 0.25, 200, 299), layer,
                                rng.choice([None, "a_user", "some/file.yaml", "c0"])])
            if rng.random() < 0.1 and ov:
                pre.append(["w", ov[0][0], 1, "no_such_layer", None])      # unknown layer on a key that exists
            pre.append(["r"])
        post = [[rng.choice(cand + ["late.k0"]), rng.randint(300, 399), rng.choice(HOWS)] for _ in range(rng.choice([0, 1, 1, 2]))]
        used = {p for p, _ in ms} | {p for p, _ in ov} | {p for p, _ in (home or [])} | set(defaulted) | {a[1] for a in attempts} \
            | {op[1] for op in pre if op[0] == "w"} | {p for p, _, _ in post}
        probes = sorted(used)
        extra = [p for p in POOL + list(MGR_PATHS) + ["absent.k", "h.k0"] if p not in used]
        rng.shuffle(extra)
        probes = (probes + extra[:3])[:16]
        delete = None
        if rng.random() < 0.2:
            keys = [p for p in cand if p not in MGR_PATHS]
            keys = keys + [".".join(p.split(".")[:k]) for p in keys for k in range(1, p.count(".") + 1)] + ["absent", "s0.nothing"]
            delete = [rng.choice(keys), rng.choice(["delattr", "delitem"])]
        case = {"forest": forest, "n_spec": n_spec, "spec_via": spec_via, "batches": batches, "adds": adds, "ctor_holes": ctor_holes,
                "ms": ms, "ms_kind": ms_kind, "ov": ov, "ov_kind": ov_kind, "home": home, "plugins": plugins,
                "probes": probes, "attempts": attempts, "pre": pre, "post": post, "post_handle": rng.choice(["sim", "stored"]),
                "late_add": rng.random() < 0.3, "setup_twice": rng.random() < 0.3, "delete": delete, "before": []}
        if like is None and rng.random() < 0.1 and len(batches) >= 2:   # an earlier batch again: verbatim (the same sequence
            j = rng.randrange(len(batches))                             # object) or overlapping (some of it + something new)
            lo = n_spec + sum(batches[:j])
            again = forest[lo:lo + batches[j]]
            if j == 0 and spec_via in ("cdict", "clct"):
                again = []
            how = rng.choice(["verbatim", "overlap", "overlap"])
            if how == "overlap" and again:
                again = rng.sample(again, rng.randint(1, len(again)))
            case["forest"] = forest + again
            case["batches"] = batches + [len(again)]
            case["adds"] = adds + [{"container": adds[j - 1]["container"] if j else "list", "group": False, "holes": [],
                                    "same_list_as": j if how == "verbatim" and not (j and (adds[j - 1]["group"] or adds[j - 1]["holes"])) and not (j == 0 and ctor_holes) else None}]
            tag = (tag + "+" if tag else "") + "repeat-batch"
        if tag:
            case["mode"] = tag
        if allow_before and rng.random() < 0.35:
            for _ in range(rng.choice([1, 1, 2])):
                b = self._gen(rng, allow_before=False, like=case if rng.random() < 0.75 else None)
                b["delete"] = None if rng.random() < 0.7 else b["delete"]
                case["before"].append(b)
        if allow_before and rng.random() < 0.12:                 # the SAME objects (components, argument dicts) in a second simulation
            b = copy.deepcopy({k: v for k, v in case.items() if k not in ("before", "other")})
            b["before"], b["delete"], b["other"] = [], None, None
            what = rng.choice(["objects", "args", "objects+args"])
            if "args" not in what:                               # other user values, same structure
                b["ov"] = [[p_, self._value(rng, 0.2, 0.2, 400, 499)] for p_, _ in b["ov"]]
            case["before"].append(b)
            case["reuse"] = what
        if allow_before and rng.random() < 0.15:                 # a second simulation alive at the same time, driven in between
            o = self._gen(rng, allow_before=False, like=case if rng.random() < 0.6 else None)
            o["delete"] = None
            case["other"] = o
            case["other_at"] = sorted(rng.choice([0, 1, 2, 3, 4]) for _ in range(3))
        return case

    @staticmethod
    def _inside(a, t):
        """is node t inside the subtree of a (sharing a below its own descendant would make an infinite tree)"""
        return any(x is t for x in preorder([a]))

    def boundary(self):
        def N(i, n, d=(), c=(), sub="list", defs="property", proto="plain", holes=()):
            return {"id": i, "n": n, "d": [list(x) for x in d], "c": list(c), "sub": sub, "defs": defs, "proto": proto,
                    "holes": [list(h) for h in holes]}

        def M(first_id, col, states, transitions):
            return machine_tree([first_id], col, [list(x) for x in states], [list(x) for x in transitions])

        def case(forest, batches=None, ms=(), ov=(), attempts=(), pre=(), post=(), probes=None, late=False, twice=False,
                 ms_kind="dict", ov_kind="dict", delete=None, **kw):
            flat = preorder(forest)
            opt = (kw.get("plugins") or {}).get("opt") or {"d": []}
            used = [p for t in flat for p, _ in t["d"]] + [p for p, _ in ms] + [p for p, _ in ov] + [a[1] for a in attempts] \
                + [op[1] if op[0] == "w" and len(op) == 5 else op[0] for op in pre if op != ["r"]] + [p for p, _, _ in post] + [p for p, _ in (kw.get("home") or [])] + [p for p, _ in opt["d"]]
            pr = probes if probes is not None else \
                sorted(p for p in set(used) if not any(under(p, q) and p != q for q in used)) + ["absent.k", "population.population_size"]
            n_spec = kw.get("n_spec", 0)
            need_ms = bool(ms) or kw.get("spec_via") == "ms" or (kw.get("plugins") or {}).get("via") == "ms"
            c = {"forest": forest, "batches": batches or [len(forest) - n_spec], "ms": [list(x) for x in ms],
                 "ms_kind": ms_kind if need_ms else None, "ov": [list(x) for x in ov], "ov_kind": ov_kind if ov else None,
                 "probes": pr, "attempts": [list(a) for a in attempts], "pre": [list(x) for x in pre],
                 "post": [list(x) for x in post], "late_add": late, "setup_twice": twice,
                 "delete": list(delete) if delete else None}
            c.update(kw)
            return fill(c)
        chain = N(0, "a", [("s0.k0", 1)], [N(1, "b", [], [N(2, "c", [("s0.k1", 2)], [N(3, "d", [("s1.k0", 3)])])])])
        wide = N(0, "a", [], [N(1, "b", [], [N(4, "e"), N(5, "f"), N(6, "g")]), N(2, "c", [("s0.k0", 1)]), N(3, "d", [], [N(7, "h")])])
        two = [N(0, "a", [("s0.k0", 1)], [N(2, "c", [("s0.k2", 3)])]), N(1, "b", [("s0.k1", 2)])]
        P = lambda **k: dict({"clock": "datetime", "opt": None, "via": "arg", "arg_kind": "dict"}, **k)   # noqa: E731
        out = [
            case([]),                                                             # nothing supplied
            case([], batches=[0, 0], late=True, twice=True),
            case([], no_list=True),                                               # components=None
            case([N(0, "a")], late=True, twice=True),
            case([chain], ms=[("s0.k0", 10), ("s1.k0", 30)], ov=[("s1.k0", 300), ("s0.k1", 200)], late=True, twice=True),
            case([wide, N(8, "z", [("s2.k0", 5)])], batches=[1, 1]),
            case([N(8, "z", [("s2.k0", 5)]), wide], batches=[0, 1, 1]),
            # duplicate names: top level, deep, parent = child, same object twice, same object below another
            case([N(0, "a"), N(1, "a")]),
            case([N(0, "a", [], [N(1, "b", [], [N(2, "c", [], [N(3, "x")])])]), N(4, "x")]),
            case([N(4, "x"), N(0, "a", [], [N(1, "b", [], [N(2, "c", [], [N(3, "x")])])])], batches=[1, 1]),
            case([N(0, "a", [], [N(1, "a")])]),
            case([N(0, "a", [("s0.k0", 1)]), N(0, "a", [("s0.k0", 1)])]),
            case([N(0, "a"), N(0, "a")]),
            case([N(0, "a"), N(1, "b", [], [N(0, "a")])]),
            case([N(0, "a"), N(1, "b")], batches=[1, 1]),
            case([N(0, "a"), N(1, "a")], batches=[1, 1]),
            # manager names: top level and deep (refused when setup joins the two sets)
            case([N(0, "population_manager")]),
            case([N(0, "a", [], [N(1, "b", [], [N(2, "event_manager")])])], late=True),
            case([N(0, "a"), N(1, "datetime_clock", [("s0.k0", 1)])], batches=[1, 1], ov=[("s0.k0", 9)]),
            case([N(0, "simple_clock")]),                                         # not a manager of THIS simulation: accepted
            case([N(0, "simple_clock")], plugins=P(clock="simple")),
            case([N(0, "datetime_clock")], plugins=P(clock="simple", via="ms"), ms_kind="yaml_str"),
            # clashing defaults: siblings, parent/child, across batches, same value, with a manager
            case([N(0, "a", [("s0.k0", 1)]), N(1, "b", [("s0.k0", 2)])]),
            case([N(0, "a", [("s0.k0", 1)], [N(1, "b", [("s0.k1", 2), ("s0.k0", 1)])])]),
            case([N(0, "a", [("s0.k0", 1)]), N(1, "b", [("s0.k0", 2)])], batches=[1, 1], ov=[("s0.k0", 7)]),
            case([N(0, "a", [("population.population_size", 7)])]),
            case([N(0, "a", [], [N(1, "b", [("randomness.random_seed", 5)])])], ov=[("randomness.random_seed", 1)]),
            # all layerings of one key, both component orders
            case([N(0, "a", [("s0.k0", 1)]), N(1, "b", [("s0.k1", 2)])], ms=[("s0.k0", 10), ("s0.k1", 20)], ov=[("s0.k0", 100)]),
            case([N(1, "b", [("s0.k1", 2)]), N(0, "a", [("s0.k0", 1)])], ms=[("s0.k0", 10), ("s0.k1", 20)], ov=[("s0.k0", 100)]),
            case([N(0, "a", [("s0.k0", 1)])], ms=[("s0.k0", 10)], ms_kind="lct"),
            case([N(0, "a", [("s0.k0", 1)])], ov=[("s0.k0", 100)], ov_kind="lct"),
            case([N(0, "a", [("s0.k0", 1)])], ms=[("s1.k0", 10)], ov=[("s1.k0", 100), ("s2.k2", 5)]),
            case([N(0, "a")], ms=[("population.population_size", 3)], ov=[("population.population_size", 7)]),
            case([N(0, "a")], ms=[("population.population_size", 3), ("time.step_size", 2)]),
            # writes from setup through every access path, on existing / user / fresh keys; writes before and after setup
            case([N(0, "a", [("s0.k0", 1)], [N(1, "b", [("s0.k1", 2)])]), N(2, "c")], ov=[("s0.k1", 9)],
                 attempts=[("a", "s0.k0", 50, "update"), ("a", "s0.k0", 51, "setattr"), ("b", "s0.k0", 52, "setitem"),
                           ("b", "s0.k1", 53, "sub_update"), ("b", "fresh.k0", 54, "update"), ("c", "s0.fresh", 55, "sub_update"),
                           ("c", "s0.k1", 56, "setattr"), ("c", "s0.k0.deep", 57, "update"), ("c", "s0", 58, "setattr")],
                 post=[("s0.k0", 60, "update"), ("s0.k1", 61, "setattr"), ("late.k0", 62, "update"), ("s0.k0", 63, "setitem")],
                 post_handle="stored"),
            case([N(0, "a", [("s0.k0", 1)])], ov=[("s0.k1", 9)], pre=[("s0.k0", 70)], post=[("s0.k0", 71, "update")]),
            case([N(0, "a", [("s0.k0", 1)])], ov=[("s0.k0", 9)], pre=[("s0.k0", 70)]),
            case([N(0, "a", [("s0.k0", 1)])], pre=[("early.k0", 70)], attempts=[("a", "early.k0", 5, "update")]),
            case([N(0, "a", [("s0.k0", 1)])], pre=[("s0.k0.deep", 70)]),          # a shape conflict BEFORE freeze: refused, not frozen
            # falsy / odd user values are values, at depths 1-4, through every configuration route
            case([N(0, "a", [("s0.k0", 1), ("s0.k1", 2), ("s3.d.k0", 3), ("s4.a.b.k0", 4), ("t0", 5)], [N(1, "b", [("s1.k0", 6)])])],
                 ov=[("s0.k0", None), ("s0.k1", 0), ("s3.d.k0", False), ("s4.a.b.k0", ""), ("t0", []), ("s1.k0", None)]),
            case([N(0, "a", [("s0.k0", 1), ("s0.k1", 2), ("s3.d.k0", 3), ("s4.a.b.k0", 4), ("t0", 5)], [N(1, "b", [("s1.k0", 6)])])],
                 ov=[("s0.k0", None), ("s0.k1", 0), ("s3.d.k0", False), ("s4.a.b.k0", ""), ("t0", []), ("s1.k0", None)], ov_kind="lct"),
            case([N(0, "a", [("s0.k0", 1), ("s3.d.k0", 3), ("s4.a.b.k0", 4), ("t0", 5)])],
                 ms=[("s0.k0", None), ("s3.d.k0", 0), ("s4.a.b.k0", None), ("t0", False), ("s2.k2", [])]),
            case([N(0, "a", [("s0.k0", 1), ("s3.d.k0", 3)])], ms=[("s0.k0", None), ("s3.d.k0", 0)], ms_kind="lct"),
            case([N(0, "a", [("s0.k0", 1), ("s3.d.k0", 3), ("t0", 4)])], ms=[("s0.k0", None), ("s3.d.k0", 0), ("t0", ""), ("s1.k1", [])],
                 ms_kind="yaml_str"),
            case([N(0, "a", [("s0.k0", 1), ("s3.d.k0", 3), ("t0", 4)])], ms=[("s0.k0", None), ("s3.d.k0", False), ("t0", "None"), ("s1.k1", 1.5)],
                 ms_kind="yaml_path"),
            case([N(0, "a", [("s0.k0", 1)]), N(1, "b", [("s4.a.b.k1", 2)])], ms=[("s0.k0", 10), ("s4.a.b.k1", 20), ("t1", 30)],
                 ov=[("s0.k0", None), ("s4.a.b.k1", None), ("t1", None)]),
            case([N(0, "a", [("s0.k0", 1)])], ms=[("s0.k0", None)], ov=[("s0.k0", 0)]),
            case([N(0, "a", [("s0.k0", [1, 2]), ("s0.k1", "text"), ("s0.k2", 1.5), ("s0.k3", True), ("t0", None)])],
                 ms=[("s0.k0", [[1], [2, None]]), ("s0.k1", "0")], ov=[("s0.k2", -2.25), ("s0.k3", 1), ("t0", "a b: c")], ms_kind="yaml_str"),
            case([N(0, "a")], ov=[("interpolation.validate", None), ("interpolation.extrapolate", False), ("randomness.random_seed", None),
                                  ("stratification.default", None), ("randomness.additional_seed", 0), ("fresh.k0", None)],
                 probes=["interpolation.validate", "interpolation.extrapolate", "randomness.random_seed", "stratification.default",
                         "randomness.additional_seed", "fresh.k0", "interpolation.order"]),
            case([N(0, "a")], ms=[("interpolation.validate", None), ("interpolation.order", None)], ov=[("interpolation.order", False)]),
            # every route for components: specification block (dict / LCT / YAML), components= dict / LCT, list, add (tuple, groups)
            case(copy.deepcopy(two), n_spec=2, spec_via="ms"),
            case(copy.deepcopy(two), n_spec=1, spec_via="ms", ms_kind="lct", ms=[("s0.k0", 10)]),
            case(copy.deepcopy(two), n_spec=1, spec_via="ms", ms_kind="yaml_str", batches=[0, 1], ov=[("s0.k2", None)]),
            case(copy.deepcopy(two), n_spec=2, spec_via="ms", ms_kind="yaml_path", ms=[("s0.k1", None)]),
            case(copy.deepcopy(two), n_spec=2, spec_via="cdict", batches=[0]),
            case(copy.deepcopy(two) + [N(5, "e")], n_spec=2, spec_via="clct", batches=[0, 1]),
            case([N(0, "a"), N(1, "b"), N(2, "c"), N(3, "d"), N(4, "a")], n_spec=1, spec_via="ms", batches=[1, 1, 2],
                 adds=[{"container": "tuple", "group": False}, {"container": "list", "group": True}]),   # duplicate: block vs last add
            case([N(0, "a"), N(1, "a")], n_spec=1, spec_via="ms", batches=[1]),                           # duplicate: block vs list
            case([N(0, "a"), N(1, "b"), N(2, "c")], batches=[0, 3], adds=[{"container": "tuple", "group": True}]),
            case([N(0, "a"), N(1, "b")], batches=[1, 1, 0]),                                              # add_components([]) last
            # every sub_components container, both ways of declaring defaults
            case([N(0, "a", [("s0.k0", 1)], [N(1, "b", [("s0.k1", 2)], [N(2, "c")], sub="fresh"), N(3, "d", [], [], defs="class_attr")], sub="tuple"),
                  N(4, "e", [("s1.k0", 3)], [N(5, "f", [("s1.k1", 4)], [], defs="class_attr")], sub="copy", defs="class_attr")]),
            case([N(0, "a", [], [N(1, "b", [], [N(2, "b")], sub="fresh")], sub="fresh")]),                # duplicate below lazily created children
            case([N(0, "a", [("s0.k0", 1)], [], defs="class_attr"), N(1, "b", [("s0.k0", 1)], [], defs="class_attr")]),   # two instances, one class
            case([N(0, "a", [], [N(1, "b")], sub="gen")]),                                                # outside the signature: TypeError
            case([N(0, "a", [], [], sub="gen")]),
            # ~/vivarium.yaml (temp HOME): below component defaults, above nothing; loses to every other route
            case([N(0, "a", [("s0.k0", 1)])], home=[("s0.k0", 5), ("h.k0", 6), ("s0.k1", None)], ms=[("s0.k1", 7)], ov=[("h.k1", 8)],
                 probes=["s0.k0", "h.k0", "s0.k1", "h.k1", "absent.k"]),
            case([N(0, "a", [("s0.k0", 1)])], home=[("population.population_size", 3)], probes=["population.population_size", "s0.k0"]),
            case([], home=[]),
            # plugin configuration: clock kind, optional manager (argument dict / LCT / in the specification), its clashes
            case([N(0, "a", [("s0.k0", 1)])], plugins=P(clock="simple"), ov=[("time.step_size", 3)], probes=["time.step_size", "s0.k0", "time.start"]),
            case([N(0, "a", [("s0.k0", 1)])], plugins=P(opt={"n": "probe_manager", "d": [["pm.k0", 4], ["pm.sub.k", 5]]}), ov=[("pm.k0", None)],
                 attempts=[("probe_manager", "pm.k0", 9, "update"), ("probe_manager", "s0.k0", 9, "setattr")]),
            case([N(0, "a")], plugins=P(opt={"n": "probe_manager", "d": [["pm.k0", 4]]}, arg_kind="lct")),
            case([N(0, "a")], plugins=P(opt={"n": "probe_manager", "d": [["pm.k0", 4]]}, via="ms", clock="simple"), ms_kind="yaml_str"),
            case([N(0, "probe_manager")], plugins=P(opt={"n": "probe_manager", "d": []})),
            case([N(0, "a")], plugins=P(opt={"n": "a", "d": []})),
            case([N(0, "a")], plugins=P(opt={"n": "population_manager", "d": []})),
            case([N(0, "a")], plugins=P(opt={"n": "probe_manager", "d": [["population.population_size", 7]]})),
            case([N(0, "a", [("pm.k0", 1)])], plugins=P(opt={"n": "probe_manager", "d": [["pm.k0", 4]]})),
            # the same key at different depths
            case([N(0, "a", [("s0.k0", 1)]), N(1, "b", [("s0.k0.deep", 2)])]),
            case([N(1, "b", [("s0.k0.deep", 2)]), N(0, "a", [("s0.k0", 1)])], batches=[1, 1]),
            case([N(0, "a", [("s0", 1)], [N(1, "b", [("s0.k0", 2)])])]),
            case([N(0, "a", [("randomness", 1)])]),
            case([N(0, "a", [("time.step_size.deep", 1)])]),
            case([N(1, "b", [("s0.k0.deep", 2)])], ov=[("s0.k0", 5)]),
            case([N(1, "b", [("s0.k0", 2)])], ov=[("s0.k0.deep", 5)], ov_kind="lct"),
            case([N(1, "b", [("s0.k0", 2)])], ms=[("s0", 5)]),
            case([], ms=[("s0", 5)], ov=[("s0.k0", 1)]),
            case([], ms=[("s0.k0", 5)], home=[("s0", 1)]),
            case([], ov=[("population", 5)]),
            # components with a truth value / container / equality protocol of their own (seeded C20-3: `if not current`):
            # falsy at the top level, as inner node (its truthy sub-tree must survive), as leaf; through every route; with
            # defaults and user values; duplicates where one or both copies are falsy; two falsy ones defaulting one key
            case([N(0, "a", [("s0.k0", 1)], proto="len0"), N(1, "b", [("s0.k1", 2)], proto="bool_false"), N(2, "c", proto="iter_len0"),
                  N(3, "d", proto="len3_bool_false"), N(4, "e", proto="len3"), N(5, "f", proto="len0_bool_true"), N(6, "g", proto="bool_true")],
                 ov=[("s0.k0", None)], ms=[("s0.k1", 20)]),
            case([N(0, "a", [("s0.k0", 1)], [N(1, "b", [("s0.k1", 2)], [N(2, "c", [("s0.k2", 3)], [N(3, "d", [("s0.k3", 4)], proto="len0")])], proto="bool_false")],
                    sub="tuple")], ov=[("s0.k2", 30)]),
            case([N(0, "a", [], [N(1, "b", [], [N(2, "c")], proto="len0", sub="fresh", defs="class_attr")], proto="iter_len0", sub="copy")]),
            case([N(0, "a", [("s0.k0", 1)], [N(2, "c", [("s0.k2", 3)], proto="bool_false")], proto="len0"), N(1, "b", [("s0.k1", 2)], proto="len0", defs="class_attr")],
                 n_spec=2, spec_via="ms", ms_kind="yaml_str"),
            case([N(0, "a", [("s0.k0", 1)], proto="bool_false"), N(1, "b", proto="len0")], n_spec=2, spec_via="cdict", batches=[0]),
            case([N(0, "a", proto="len0"), N(1, "b", proto="bool_false"), N(2, "c", proto="iter_len0")], batches=[1, 2],
                 adds=[{"container": "tuple", "group": True, "holes": []}]),
            case([N(0, "a", proto="len0"), N(1, "a")]),                                           # duplicate, first copy falsy
            case([N(0, "a"), N(1, "a", proto="bool_false")], batches=[1, 1]),                     # duplicate, second copy falsy
            case([N(0, "a", proto="len0"), N(1, "b", [], [N(2, "a", proto="iter_len0")])]),       # both falsy, one nested
            case([N(0, "a", proto="len0"), N(0, "a", proto="len0")]),                             # the same falsy object twice
            case([N(0, "population_manager", proto="bool_false")]),
            case([N(0, "a", [("s0.k0", 1)], proto="len0"), N(1, "b", [("s0.k0", 2)], proto="bool_false")]),
            case([N(0, "a", [("s0.k0", 1)], proto="len0"), N(1, "b", [("s0.k0.deep", 2)], proto="len0")]),
            case([N(0, "a", [("s0.k0", 1)], proto="len0")], attempts=[("a", "s0.k0", 5, "update")], delete=("s0", "delattr"), late=True, twice=True),
            case([N(0, "a", proto="eq_always"), N(1, "b", proto="eq_always"), N(2, "c", proto="eq_never"), N(3, "d", proto="eq_name"),
                  N(4, "e", [], [N(5, "f", proto="eq_name")], proto="eq_never")]),
            case([N(0, "a", proto="eq_always"), N(1, "a", proto="eq_never")]),                    # same name, never equal: still a duplicate
            case([N(0, "a", proto="eq_name"), N(1, "a", proto="eq_name")], batches=[1, 1]),
            case([N(0, "a", proto="eq_never"), N(0, "a", proto="eq_never")]),                     # same object, not equal to itself
            # real library components: a state machine; the transition set of a terminal state is empty, hence falsy
            case([M(0, "m0", [("x", False), ("y", True), ("z", False)], [("x", "y"), ("y", "z"), ("x", "z")])]),
            case([M(0, "m0", [("x", False)], [])]),
            case([N(0, "a", [("s0.k0", 1)], [M(1, "m0", [("x", False), ("y", False)], [("x", "y")])]), N(20, "b")], batches=[1, 1], ov=[("s0.k0", 9)]),
            case([M(0, "m0", [("x", False), ("y", False)], [("x", "y")]), M(20, "m1", [("y", False), ("z", False)], [])]),   # state.y twice
            case([M(0, "m0", [("x", False)], []), N(20, "transition_set.x")]),                    # duplicate of an EMPTY transition set
            case([N(20, "transition_set.x", proto="len0"), M(0, "m0", [("x", False)], [])], batches=[1, 1]),
            case([M(0, "m0", [("x", False), ("y", False)], [("x", "y")]), M(20, "m0", [("z", False)], [])]),                 # machine.m0 twice
            # None / [] / () among the components: decided on the unchanged code (see forced_outcomes)
            case([N(0, "a"), N(1, "b")], ctor_holes=[(1, "none")]),
            case([N(0, "a"), N(1, "b")], ctor_holes=[(0, "elist")]),
            case([N(0, "a")], ctor_holes=[(1, "etuple")]),
            case([N(0, "a"), N(1, "b")], batches=[0, 2], adds=[{"container": "list", "group": False, "holes": [[1, "none"]]}]),
            case([N(0, "a"), N(1, "b")], batches=[1, 1], adds=[{"container": "tuple", "group": False, "holes": [[0, "none"]]}]),
            case([N(0, "a"), N(1, "b")], batches=[0, 2], adds=[{"container": "list", "group": True, "holes": [[1, "elist"], [0, "etuple"]]}]),
            case([N(0, "a", [], [N(1, "b"), N(2, "c")], holes=[(1, "none")])]),
            case([N(0, "a", [], [N(1, "b"), N(2, "c")], holes=[(1, "elist"), (0, "etuple"), (4, "elist")], sub="tuple")]),
            case([N(0, "a", [], [N(1, "b", [], [], holes=[(0, "none")])])], n_spec=1, spec_via="ms"),
            case([N(0, "a", [], [N(1, "b", [], [], holes=[(0, "etuple")], proto="len0")], proto="bool_false")], n_spec=1, spec_via="clct", batches=[0]),
            # F18 (known finding): deletions from a component's setup – a whole section, one leaf, a user-supplied key,
            # a sub-tree, a key that does not exist (nothing to delete: not a finding)
            case([N(0, "a", [("s0.k0", 1), ("s1.k0", 2)])], delete=("s0", "delattr"), post=[("s1.k0", 5, "update")]),
            case([N(0, "a", [("s0.k0", 1), ("s0.k1", 2)], [N(1, "b")])], delete=("s0.k1", "delitem"),
                 attempts=[("b", "s0.k1", 7, "update")]),
            case([N(0, "a", [("s0.k0", 1)]), N(1, "b")], ms=[("s0.k0", 10), ("s0.k1", 20)], ov=[("s0.k0", 100)],
                 delete=("s0.k0", "delattr"), late=True, twice=True),
            case([N(0, "a", [("s3.d.k0", 1), ("s3.e.k0", 2)])], delete=("s3.d", "delitem")),
            case([N(0, "a", [("s0.k0", 1)])], delete=("absent", "delattr")),
        ]
        # earlier simulations in the same process: same names, same class (class attribute defaults), same keys, other user
        # values; a rejected one; one that deletes; then the simulation that is judged
        # lessons 12-13: exact repeats, several objects of one kind alive, heterogeneous histories
        base2 = [N(0, "a", [("s0.k0", 1), ("s0.k1", 2)], [N(1, "b", [("s1.k0", 3)], [], defs="class_attr")], defs="property_same"), N(2, "c", [("s2.k0", 4)], sub="tuple")]
        for what in ("objects", "args", "objects+args"):
            m_ = case(copy.deepcopy(base2), ms=[("s1.k0", 30)], ov=[("s0.k0", 100)], probes=["s0.k0", "s0.k1", "s1.k0", "s2.k0", "absent.k"])
            b_ = copy.deepcopy(m_)
            if "args" not in what:
                b_["ov"] = [["s0.k0", 400]]
            out.append(dict(m_, before=[b_], reuse=what))
        m_ = case([N(0, "a", [("s0.k0", 1)], [N(1, "b")]), N(2, "c", [("s0.k1", 2)])], batches=[1, 1], ov=[("s0.k1", 20)], home=[("h.k0", 5)])
        o_ = case([N(0, "a", [("s0.k0", 7)], [N(1, "b", [("s1.k0", 8)])]), N(3, "d")], batches=[1, 1], ov=[("s0.k0", 70), ("h.k0", 71)], ms=[("s0.k1", 72)], ms_kind="yaml_str")
        for at in ([0, 1, 2], [1, 1, 2], [0, 2, 3], [1, 2, 4], [0, 0, 0]):
            out.append(dict(copy.deepcopy(m_), other=copy.deepcopy(o_), other_at=at))
        W = lambda p_, v, layer=None, src=None: ["w", p_, v, layer, src]   # noqa: E731
        for pre_ in ([W("q.k", 1, "base", "a"), ["r"], W("q.k", 2, "override", "b"), ["r"], W("q.k", 3, "model_override"), ["r"]],
                     [W("q.k", 2, "override"), ["r"], W("q.k", 1, "base"), ["r"], W("q.k", 1, "base"), W("q.k", 2, "override", "again"), ["r"]],
                     [W("s0.k0", 5, "component_configs"), W("s0.k0", 5, "user_configs", "f.yaml"), ["r"], W("s0.k0", 6, "user_configs", "f.yaml"), W("s0.k0", 7), ["r"], W("s0.k0", 7), ["r"]],
                     [W("s0.k1", None, "model_override"), ["r"], W("s0.k1", 0, "override"), ["r"], W("s0.k1", "0", "override"), W("s0.k1", 1, "no_such_layer"), ["r"]],
                     [["r"], ["r"], W("early.k0", [1], "base"), W("early.k0", 1.0, "user_configs"), W("early.k0", True, "component_configs"), W("early.k0", "1", "model_override"), ["r"]]):
            out.append(case([N(0, "a", [("s0.k0", 1)])], ov=[("s0.k1", 9)], pre=pre_, attempts=[("a", "q.k", 5, "update")], post=[("q.k", 6, "update")]))
        out += [
            case([N(0, "a"), N(1, "b"), N(0, "a"), N(1, "b")], batches=[0, 2, 2],
                 adds=[{"container": "list", "group": False, "holes": []}, {"container": "list", "group": False, "holes": [], "same_list_as": 1}]),
            case([N(0, "a"), N(1, "b"), N(1, "b"), N(2, "c")], batches=[2, 2]),                     # overlapping with the constructor's list
            case([N(0, "a"), N(1, "b"), N(2, "c"), N(1, "b")], batches=[0, 2, 1, 1]),               # overlapping after an intervening batch
            case([N(0, "a")], batches=[1, 0, 0], adds=[{"container": "list", "group": False, "holes": []},
                                                        {"container": "list", "group": False, "holes": [], "same_list_as": 1}]),   # the same EMPTY list twice
            case([N(0, "a", [], [N(2, "x"), N(3, "y")]), N(1, "b", [], [N(2, "x"), N(3, "y")]) | {"share": 0}]),   # one list object, two parents
            case([N(0, "a"), N(1, "b") | {"share": 0}, N(2, "c") | {"share": 0, "sub": "tuple"}]),                  # … an empty one: fine
            case([N(0, "a", [("s0.k0", 1), ("s0.k1", 1.0), ("s0.k2", "1")], defs="property_same"), N(1, "b", [("s1.k0", True)], defs="property_same")],
                 ms=[("s0.k0", 1.0), ("s0.k1", True), ("s1.k0", 1)], ov=[("s0.k0", "1"), ("s0.k2", [1])], home=[("s0.k0", [1]), ("s1.k0", "True")]),
        ]
        # lesson 16 - fault histories: add_components calls that are refused, the error caught, the same context used further
        # (reads of every touched key after each call, corrected batch, exact repeat, setup); a setup() that raises
        def FH(forest, faults, **kw):
            evs = [dict({"container": "list", "kind": "boundary"}, **e) for e in faults]
            paths = [p_ for e in evs for x in preorder(e["forest"]) for p_, _ in x["d"]] + [p_ for x in preorder(forest) for p_, _ in x["d"]] \
                + [p_ for p_, _ in list(kw.get("ov", ())) + list(kw.get("ms", ()))]
            pr = []
            for p_ in paths + ["absent.k", "population.population_size"]:
                if p_ not in pr and not any(strict_conflict(p_, q) and under(p_, q) for q in paths + list(MGR_PATHS)):
                    pr.append(p_)
            return case(forest, faults=evs, probes=pr, mode="fault-history", **kw)
        base_ = lambda: N(0, "base", [("base.scale", 1)])   # noqa: E731
        ext = N(1000, "ext", [("ext.rate", 2), ("ext.cap", 10), ("base.scale", 3)])
        ext_ok = N(1001, "ext_fixed", [("ext.rate", 2), ("ext.cap", 10)])
        out += [
            FH([base_()], [{"at": 1, "forest": [ext]}, {"at": 1, "forest": [ext_ok]}], ov=[("ext.rate", 9)]),
            FH([base_()], [{"at": 1, "forest": [ext]}], ms=[("ext.rate", 9), ("ext.cap", None)], late=True, twice=True),
            FH([base_()], [{"at": 1, "forest": [N(1000, "ext", [("ext.rate", 2), ("base.scale.deep", 3), ("ext.cap", 10)])]},
                           {"at": 1, "forest": [N(1001, "ext", [("ext.cap", 10)])]}], ov=[("ext.rate", 0)], ms=[("ext.rate", 7)]),
            FH([base_(), N(1, "b", [("s0.k0", 1)])], [{"at": 1, "forest": [N(1000, "p", [("x.a", 1)], [N(1001, "q", [("x.b", 2)], [N(1002, "base", [("y.a", 9)])])])]},
                                                      {"at": 1, "forest": [N(1003, "q")]}, {"at": 2, "forest": [N(1004, "r", [("y.a", 4)])]}],
               batches=[1, 1], ov=[("x.a", 50), ("y.a", None)]),
            FH([base_()], [{"at": 1, "forest": [N(1000, "base", [("base.scale", 1)])]}, {"at": 1, "forest": [N(1001, "base", [("ext.rate", 3)])]},
                           {"at": 1, "forest": [N(1002, "n", [("ext.rate", 4)])]}], ov=[("ext.rate", 9)]),
            FH([base_()], [{"at": 1, "forest": [N(1000, "a1", [("x.a", 1)]), N(1001, "a2", [("x.b", 1)]) | {"boom": "sub"}]},
                           {"at": 1, "forest": [N(1000, "a1", [("x.a", 1)]), N(1002, "a2", [("x.b", 1)])]}], ov=[("x.a", 5)]),
            FH([base_()], [{"at": 1, "forest": [N(1000, "a1", [("x.a", 1)]), N(1001, "a2", [("x.b", 1)]) | {"boom": "defs"}, N(1003, "a3")]},
                           {"at": 1, "forest": [N(1002, "a2", [("x.b", 1)]), N(1003, "a3")]}], ms=[("x.b", 5)]),
            FH([base_()], [{"at": 1, "forest": [ext], "container": "tuple"}, {"at": 1, "forest": [ext], "container": "tuple", "same_as": 0},
                           {"at": 1, "forest": [ext], "container": "tuple", "same_as": 0}], ov=[("ext.cap", "")]),
            FH([base_(), N(1, "later", [("ext.cap", 5)])], [{"at": 1, "forest": [ext]}], batches=[1, 1], ov=[("ext.rate", 9)]),   # the leftover collides later
            FH([base_(), N(1, "later", [("s0.k0", 5)])], [{"at": 1, "forest": [ext]}, {"at": 2, "forest": [N(1001, "u", [("u.k", 1)])]}],
               batches=[1, 1], ov=[("ext.rate", 9), ("s0.k0", 8)]),
            FH([base_()], [{"at": 1, "forest": [N(1000, "population_manager", [("x.a", 1)])]}], ov=[("x.a", 5)]),          # accepted by add, refused by setup
            FH([base_(), N(1, "b", [("s0.k0", 1)])], [{"at": 1, "forest": [ext]}], ov=[("ext.rate", 9)], setup_boom="b", late=True, twice=True),
            FH([base_(), N(1, "b", [("s0.k0", 1)])], [], ov=[("s0.k0", 9)], setup_boom="base", late=True, twice=True,
               attempts=[("base", "s0.k0", 5, "update")], post=[("s0.k0", 6, "update")]),
            FH([base_()], [{"at": 1, "forest": [ext]}], ov=[("ext.rate", 9)], setup_boom="probe_manager", twice=True,
               plugins=P(opt={"n": "probe_manager", "d": [["pm.k0", 4]]})),
            FH([base_()], [{"at": 1, "forest": [N(1000, "e", [("u.k", 1), ("population.population_size", 7)])]}], ov=[("u.k", 5)]),
            FH([base_()], [{"at": 1, "forest": [N(1000, "e", [("u.k", 1), ("base", 7)])]}], ms=[("u.k", 5)], ms_kind="yaml_str"),
            FH([base_()], [{"at": 1, "forest": [N(1000, "h", [("v.a", 1)], [N(1001, "e", [("u.k.deep", 1)])], sub="tuple")], "container": "tuple"},
                           {"at": 1, "forest": [N(1002, "e2", [("u", 1)])]}], ov=[("u.k", 5), ("v.a", False)], ov_kind="lct"),
        ]
        main = case([N(0, "a", [("s0.k0", 1), ("s0.k1", 2)], [N(1, "b", [("s1.k0", 3)], [], defs="class_attr")], defs="class_attr")],
                    ms=[("s1.k0", 30)], probes=["s0.k0", "s0.k1", "s1.k0", "s2.k0", "fresh.k0", "population.population_size"])
        b1 = case([N(0, "a", [("s0.k0", 1), ("s0.k1", 2)], [N(1, "b", [("s1.k0", 3)], [], defs="class_attr")], defs="class_attr"), N(2, "c", [("s2.k0", 4)])],
                  ms=[("s0.k0", 11), ("fresh.k0", 12)], ov=[("s0.k1", None), ("s1.k0", 13), ("population.population_size", 7)],
                  pre=[("s2.k0", 14)], delete=("s1", "delattr"), plugins=P(opt={"n": "probe_manager", "d": [["pm.k0", 4]]}))
        b2 = case([N(0, "a", [("s0.k0", 5)]), N(1, "a")], home=[("s0.k1", 6)])
        return [dict(main, before=[b1, b2])] + out

    def shrink(self, case):
        case = fill(case)
        forest = case["forest"]

        def rebatch(f):
            return dict(case, forest=f, n_spec=0, spec_via=None, batches=[len(f)], adds=[], ctor_holes=[])
        faults = case["faults"]
        if case.get("setup_boom"):
            yield dict(case, setup_boom=None)
        for j in range(len(faults)):                            # drop a caught call (positions of exact repeats move along)
            rest = []
            for j2, ev in enumerate(faults):
                if j2 == j:
                    continue
                sa = ev.get("same_as")
                rest.append(dict(ev, same_as=None if sa is None or sa == j else sa - (1 if sa > j else 0)))
            yield dict(case, faults=rest)
        for j, ev in enumerate(faults):                         # … a tree of it, a default of one of its components, its oddities
            if any(e2.get("same_as") == j for e2 in faults) or ev.get("same_as") is not None:
                continue

            def put(new_forest, j=j, ev=ev):
                # one node id = one object = one specification: an edited batch that shares objects with another caught
                # call gets objects of its own
                elsewhere = {x["id"] for j2, e2 in enumerate(faults) if j2 != j for x in preorder(e2["forest"])}
                if any(x["id"] in elsewhere for x in preorder(new_forest)):
                    top = [max([x["id"] for e2 in faults for x in preorder(e2["forest"])] + [999]) + 1]

                    def reid(t):
                        top[0] += 1
                        return dict(t, id=top[0] - 1, c=[reid(c) for c in t["c"]])
                    new_forest = [reid(t) for t in new_forest]
                return dict(case, faults=faults[:j] + [dict(ev, forest=new_forest)] + faults[j + 1:])
            for i in range(len(ev["forest"])):
                if len(ev["forest"]) > 1:
                    yield put(ev["forest"][:i] + ev["forest"][i + 1:])
            for i, t in enumerate(ev["forest"]):
                if t["c"]:
                    yield put(ev["forest"][:i] + t["c"] + ev["forest"][i + 1:])
                for q in range(len(t["d"])):
                    yield put(ev["forest"][:i] + [dict(t, d=t["d"][:q] + t["d"][q + 1:])] + ev["forest"][i + 1:])
                if t.get("sub", "list") != "list" or t.get("defs", "property") != "property":
                    yield put(ev["forest"][:i] + [dict(t, sub="list", defs="property")] + ev["forest"][i + 1:])
            if ev.get("container") == "tuple":
                yield dict(case, faults=faults[:j] + [dict(ev, container="list")] + faults[j + 1:])
        if case.get("other"):
            yield dict(case, other=None)
        if case.get("reuse"):
            yield dict(case, reuse=None)
        if case["before"] and not case.get("reuse"):
            yield dict(case, before=[])
            for j in range(len(case["before"]) - (1 if case.get("reuse") else 0)):
                yield dict(case, before=case["before"][:j] + case["before"][j + 1:])
        for i in range(len(forest)):
            yield rebatch(forest[:i] + forest[i + 1:])
        for i, t in enumerate(forest):                          # hoist children / drop a child / drop a default
            if t.get("lib"):
                continue                                         # a library machine is built as a whole
            if t["c"]:
                yield rebatch(forest[:i] + t["c"] + forest[i + 1:])
            for j in range(len(t["c"])):
                yield rebatch(forest[:i] + [dict(t, c=t["c"][:j] + t["c"][j + 1:])] + forest[i + 1:])
            for j in range(len(t["d"])):
                yield dict(case, forest=forest[:i] + [dict(t, d=t["d"][:j] + t["d"][j + 1:])] + forest[i + 1:])
            if not t.get("lib") and (t.get("sub", "list") != "list" or t.get("defs", "property") != "property"
                                     or t.get("proto", "plain") != "plain" or t.get("holes")):
                yield dict(case, forest=forest[:i] + [dict(t, sub="list", defs="property", proto="plain", holes=[])] + forest[i + 1:])
                if t.get("proto", "plain") != "plain":
                    yield dict(case, forest=forest[:i] + [dict(t, sub="list", defs="property", holes=[])] + forest[i + 1:])
        if len(case["batches"]) > 1 or case["n_spec"]:
            yield rebatch(forest)
        if case["home"] is not None:
            yield dict(case, home=None)
        if case["plugins"].get("opt") or case["plugins"]["clock"] != "datetime" or case["plugins"].get("via") == "ms":
            yield dict(case, plugins={"clock": "datetime", "opt": None})
            yield dict(case, plugins=dict(case["plugins"], via="arg", arg_kind="dict"))
        if case["ms_kind"] not in (None, "dict"):
            yield dict(case, ms_kind="dict")
        if case["ov_kind"] == "lct":
            yield dict(case, ov_kind="dict")
        for key in ("ms", "ov", "attempts", "pre", "post", "home"):
            for j in range(len(case[key] or [])):
                c = dict(case, **{key: case[key][:j] + case[key][j + 1:]})
                need_ms = bool(c["ms"]) or c["spec_via"] == "ms" or c["plugins"].get("via") == "ms"
                if not need_ms:
                    c["ms_kind"] = None
                if key == "ov" and not c["ov"]:
                    c["ov_kind"] = None
                yield c
        if case.get("delete"):
            yield dict(case, delete=None)
        if case["late_add"]:
            yield dict(case, late_add=False)
        if case["setup_twice"]:
            yield dict(case, setup_twice=False)
        for j in range(len(case["probes"])):
            yield dict(case, probes=case["probes"][:j] + case["probes"][j + 1:])

    # ------------------------------------------------------------------ implementation
    def run_impl(self, case):
        case = fill(case)
        case["before"] = [fill(b) for b in case["before"]]
        return _run(case)

    # ------------------------------------------------------------------ model
    def _plan(self, case, obs):
        """[(line, kind, payload)] – the operations the implementation actually performed, as driver lines"""
        case = fill(case)
        plan = []
        for p, v in case["home"] or []:                          # _get_default_specification: ~/vivarium.yaml first
            plan.append((f"user user_config_path {p} {tok(v)}", "user", None))
        for p, v in case["ms"]:
            plan.append((f"user model_specification {p} {tok(v)}", "user", None))
        for p, v in case["ov"]:
            plan.append((f"user configuration {p} {tok(v)}", "user", None))
        for name, defs in model_managers(case):
            plan.append((f"mgr {name} {_enc_defs(defs, tokens=True)}", "mgr", name))
        stages = list(obs["stages"])
        forced = forced_outcomes(case)
        if forced[0] is not None:
            plan.append((None, "forced", [forced[0], stages[0]]))
            return plan
        plan.append((f"add {_enc_forest(ctor_forest(case))}", "add", stages[0]))
        pos = case["n_spec"] + case["batches"][0]
        done = {o["k"]: o for o in obs.get("faults") or []}

        def events(at):
            """the add_components calls whose refusal the caller caught (those that were actually made), each followed by a
            read of every probed key"""
            for k, ev in enumerate(case["faults"]):
                if ev["at"] == at and k in done:
                    plan.append((f"addk {_fault_token(ev)} {_enc_forest(ev['forest'])}", "addk", done[k]))
                    for p_, v_ in done[k]["values"]:
                        plan.append((f"get {p_}", "get", v_))
        for i, (k, st) in enumerate(zip(case["batches"][1:], stages[1:])):
            events(i + 1)
            if forced[i + 1] is not None:
                plan.append((None, "forced", [forced[i + 1], st]))
                return plan
            plan.append((f"add {_enc_forest(case['forest'][pos:pos + k])}", "add", st))
            pos += k
        events(len(case["batches"]))
        for op, o in zip(case["pre"], obs["pre"]):
            if op[0] == "r":
                for p, v in o:
                    plan.append((f"get {p}", "get", v))
            else:
                _, p, v, layer, _src = op
                plan.append((f"set {p} {tok(v)}" if layer is None else f"setl {layer} {p} {tok(v)}", "set", o))
        if obs["setup"] is not None:
            att = ";".join(f"{n}={p}={tok(v)}" for n, p, v, _ in case["attempts"]) or "-"
            if case.get("setup_boom"):
                plan.append((f"setupk {case['setup_boom']} {','.join(case['probes']) or '-'} {att}", "setup", obs["setup"]))
            else:
                plan.append((f"setup {','.join(case['probes']) or '-'} {att}", "setup", obs["setup"]))
            d = obs["setup"].get("deleted")
            if d and d[2] == "ok" and obs["setup"]["outcome"] == "ok":
                plan.append((f"del {d[1]}", "del", d))
        if obs["values"] is not None:
            for p, v in obs["values"]:
                plan.append((f"get {p}", "get", v))
            for (p, v, _), o in zip(case["post"], obs["post"]):
                plan.append((f"set {p} {tok(v)}", "set", o))
            if obs["late_add"] is not None:
                plan.append(("add 1 zz_late:0:-", "late", obs["late_add"]))
            if obs["setup_twice"] is not None:
                plan.append(("setup - -", "twice", obs["setup_twice"]))
            for p, v in obs.get("values_end", []):
                plan.append((f"get {p}", "get", v))
        return plan

    def model_lines(self, case, obs):
        return [l for l, _, _ in self._plan(case, obs) if l is not None]

    @staticmethod
    def _outcome(reply):
        t = reply.split()
        return "ok" if t[0] == "ok" else (t[0][4:] if t[0].startswith("err:") else t[0])

    def compare(self, case, obs, replies):
        dis = []
        case = fill(case)
        if obs.get("mutated"):
            dis.append(f"the framework wrote into objects that belong to the user: {obs['mutated']}")
        plan = self._plan(case, obs)
        ctor = obs["stages"][0]["outcome"] if obs["stages"] else None
        if len([1 for l, _, _ in plan if l is not None]) != len(replies):
            return [f"{len(plan)} operations, {len(replies)} replies"]
        it = iter(replies)
        for k, (line, kind, pay) in enumerate(plan):
            if kind == "forced":                                 # specified by the harness (see forced_outcomes), no model line
                want, st = pay
                if st["outcome"] != want:
                    dis.append(f"#{k} {st['op']}: a placeholder / generator among the components must give {want}, implementation: {st['outcome']}")
                break
            r = next(it)
            mo = self._outcome(r)
            t = r.split()
            if kind in ("user", "mgr"):
                # a refusal here surfaces in the constructor
                if mo != "ok" and coarse(ctor) != coarse(mo):
                    dis.append(f"#{k} {line}: model {r}, constructor {ctor}")
                if mo != "ok":
                    break
            elif kind == "add":
                if coarse(pay["outcome"]) != coarse(mo):
                    dis.append(f"#{k} {pay['op']} [{line[:70]}]: impl {pay['outcome']}, model {r[:60]}")
                elif mo == "ok":
                    names = [] if t[1] == "-" else t[1].split(",")
                    if names != pay["registered"]:
                        dis.append(f"#{k} {pay['op']}: registered impl {pay['registered']}, model {names}")
                if pay["outcome"] != "ok" or mo != "ok":
                    break
            elif kind == "addk":                                 # refused or not, the history goes on: what is left behind counts
                names = [] if len(t) < 2 or t[1] == "-" else t[1].split(",")
                if coarse(pay["outcome"]) != coarse(mo):
                    dis.append(f"#{k} add_components (refusal caught) [{line[:70]}]: impl {pay['outcome']}, model {r[:60]}")
                elif names != pay["registered"]:
                    dis.append(f"#{k} add_components (refusal caught, {mo}): registered afterwards impl {pay['registered']}, model {names}")
            elif kind == "set":
                if coarse(pay) != coarse(mo):
                    dis.append(f"#{k} {line}: impl {pay}, model {mo}")
            elif kind == "setup":
                if pay["outcome"] != mo:
                    dis.append(f"#{k} setup: impl {pay['outcome']}, model {r[:60]}")
                    break
                if mo != "ok" and not (mo == "usererror" and case.get("setup_boom")):
                    break
                mlog = [] if t[1] == "-" else t[1].split(",")
                ilog = [n for _, n in pay["log"]]
                if mlog != ilog:
                    dis.append(f"#{k} setup order: impl {ilog}, model {mlog}")
                mseen = [] if t[2] == "-" else [x.split("=") for x in t[2].split(",")]
                mseen = [[n, [None if v == "~" else v for v in vs.split("|")] if vs else []] for n, vs in mseen]
                if mseen != pay["seen"]:
                    bad = next((i for i, (a, b) in enumerate(zip(mseen, pay["seen"])) if a != b), None)
                    dis.append(f"#{k} values read during setup differ at call {bad}: impl {pay['seen'][bad] if bad is not None else len(pay['seen'])}, "
                               f"model {mseen[bad] if bad is not None else len(mseen)} (probes {case['probes']})")
                mtried = [] if t[3] == "-" else [x.split("=") for x in t[3].split(",")]
                mtried = [[n, p, "ok" if b == "1" else "refused"] for n, p, b in mtried]
                itried = [[n, p, "ok" if o == "ok" else "refused"] for n, p, o in pay["tried"]]
                if mtried != itried:
                    dis.append(f"#{k} writes attempted from setup: impl {pay['tried']}, model {mtried}")
            elif kind == "del":
                if mo != "ok":
                    dis.append(f"#{k} {line}: model {r}")
            elif kind == "get":
                mv = t[1] if t[0] == "val" else None
                if mv != pay:
                    dis.append(f"#{k} {line}: impl {pay}, model {r}")
            elif kind == "late":
                if pay["outcome"] != mo:
                    dis.append(f"#{k} add_components after setup: impl {pay['outcome']}, model {r}")
            elif kind == "twice":
                if pay["outcome"] != mo:
                    dis.append(f"#{k} second setup(): impl {pay['outcome']}, model {r}")
        return dis

    # ------------------------------------------------------------------ oracle (the property itself)
    def _facts(self, case):
        """everything the oracle knows – from the case and the constants above, nothing from the implementation"""
        case = fill(case)
        flat = preorder(case["forest"])
        names = [t["n"] for t in flat]
        mgrs = expected_managers(case)
        opt = case["plugins"].get("opt") or {"d": []}
        comp_paths = [p for t in flat for p, _ in t["d"]]
        mgr_paths = list(MGR_PATHS) + [p for p, _ in opt["d"]]
        if case["plugins"]["clock"] == "simple":
            mgr_paths += ["time.start", "time.end"]
        F = {
            "flat": flat, "names": names, "mgrs": mgrs,
            "dup_name": len(set(names)) != len(names),
            "mgr_clash": any(n in mgrs for n in names),
            "mgr_dup": len(set(mgrs)) != len(mgrs),
            "dup_default": len(set(comp_paths)) != len(comp_paths) or any(p in mgr_paths for p in comp_paths)
            or len(set(mgr_paths)) != len(mgr_paths),
            "conflict_default": any(strict_conflict(a, b) for a in comp_paths + mgr_paths for b in comp_paths),
            "gen": has_gen(case["forest"]),
            "forced": any(x is not None for x in forced_outcomes(case)),
        }
        user_paths = [p for p, _ in case["ms"]] + [p for p, _ in case["ov"]] + [p for p, _ in (case["home"] or [])]
        # a user value at another depth than anything else: the user's input is malformed, refusing it is legitimate
        F["conflict_user"] = any(strict_conflict(u, q) for u in user_paths for q in user_paths + comp_paths + mgr_paths) \
            or any(under(u, m) and u != m for u in user_paths for m in
                   ["population", "randomness", "time", "interpolation", "stratification", "input_data",
                    "time.start", "time.end", "randomness.key_columns"])
        F["must_reject"] = F["dup_name"] or F["mgr_clash"] or F["mgr_dup"] or F["dup_default"] or F["conflict_default"]
        F["may_reject"] = F["conflict_user"] or F["gen"] or F["forced"]
        return F

    @staticmethod
    def _history(case):
        """every write to the configuration the case makes before setup begins, in order:
        [when (0 = constructor / registration, k = k-th operation before setup), layer, path, value, who]"""
        h = []
        for p, v in case["home"] or []:
            h.append([0, "user_configs", p, v, f"~/vivarium.yaml {v!r}"])
        for p, v in case["ms"]:
            h.append([0, "model_override", p, v, f"model specification {v!r}"])
        for p, v in case["ov"]:
            h.append([0, "override", p, v, f"override argument {v!r}"])
        for p, v in (case["plugins"].get("opt") or {"d": []})["d"]:
            h.append([0, "component_configs", p, v, f"default of the optional manager {v!r}"])
        for t in preorder(case["forest"]):
            for p, v in t["d"]:
                h.append([0, "component_configs", p, v, f"default of {t['n']} {v!r}"])
        for k, op in enumerate(case["pre"]):
            if op[0] == "w":
                _, p, v, layer, src = op
                h.append([k + 1, layer if layer is not None else LAYERS[-1], p, v, f"update before setup at {layer or 'the outermost layer'} {v!r}"])
        return h

    # ---- fault histories (lesson 16): add_components calls that were refused and caught, a setup() that raised
    @staticmethod
    def _touch(p, paths):
        return any(p == q or strict_conflict(p, q) for q in paths)

    def _oracle_faults(self, case, obs):
        """The property on a history in which the caller catches refusals and carries on with the same context. Clauses, from
        the property text and nothing else:
          * a batch whose names / default keys clash with what has been ACCEPTED before it (or with a manager) is refused
            (judged when setup completes, like everywhere else: a manager's name is only refused by setup); a batch that has
            nothing to do with anything else in the history is accepted;
          * every component of an accepted batch is registered and set up exactly once, after the managers and after its
            parent; a component of a refused batch is set up at most once; nobody else is set up;
          * a value the user supplied is what the configuration returns at EVERY moment - after every refused call, during
            setup, afterwards - whatever was refused in between; a key that only accepted components / nobody touched reads
            as in the history without the refused calls; about a key that only a refused component defaulted the property
            says nothing (the code as it is leaves such defaults behind);
          * the configuration cannot be modified once setup has begun.
        Everything is derived from the case and the OUTCOME CLASS (accepted / refused) of each call."""
        f = []
        F = self._facts(case)
        forest, m = case["forest"], len(case["batches"])
        mgr_names = F["mgrs"]
        opt = case["plugins"].get("opt") or {"d": []}
        mgr_paths = list(MGR_PATHS) + [p for p, _ in opt["d"]] + (["time.start", "time.end"] if case["plugins"]["clock"] == "simple" else [])
        user_paths = [p for p, _ in case["ms"]] + [p for p, _ in case["ov"]] + [p for p, _ in (case["home"] or [])]
        sections = ["population", "randomness", "time", "interpolation", "stratification", "input_data"]
        cuts = [case["n_spec"] + case["batches"][0]] + case["batches"][1:]
        done = {o["k"]: o for o in obs.get("faults") or []}
        stages = obs["stages"]
        main_nodes = preorder(forest)
        W = {"A": [], "R": [], "Rn": set(), "Rp": set(), "touched": False, "reads": []}

        def event(k, ev):
            """one add_components call whose refusal the caller would catch; returns False when the outcome class is none the
            property allows"""
            nodes = preorder(ev["forest"])
            names = [t["n"] for t in nodes]
            paths = [p for t in nodes for p, _ in t["d"]]
            a_names = [t["n"] for t in W["A"]]
            a_paths = [p for t in W["A"] for p, _ in t["d"]] + mgr_paths
            boom = any(t.get("boom") for t in nodes)
            must = len(set(names)) != len(names) or any(n in a_names for n in names) or len(set(paths)) != len(paths) \
                or any(self._touch(p, a_paths) for p in paths)
            conflicts = any(strict_conflict(p, q) for p in paths for q in paths + a_paths + list(W["Rp"]) + user_paths) \
                or any(p in sections for p in paths)
            may = boom or any(n in W["Rn"] for n in names) or any(self._touch(p, W["Rp"]) for p in paths) \
                or any(strict_conflict(p, u) for p in paths for u in user_paths) or any(p in sections for p in paths)
            out = done[k]["outcome"]
            allowed = {"ok", "dupname", "dupvalue"} | ({"structure"} if conflicts else set()) | ({"usererror"} if boom else set())
            if out not in allowed:
                f.append({"sig": "unexpected-exception", "msg": f"add_components #{k} {names} (refusal caught): {out}"})
                return False
            # does the batch have anything to do with the rest of the history (other calls, managers, keys at another depth)?
            others = main_nodes + [t for k2, e2 in enumerate(case["faults"]) if k2 != k for t in preorder(e2["forest"])]
            o_names = [t["n"] for t in others] + mgr_names + MGR_NAMES
            o_paths = [p for t in others for p, _ in t["d"]] + mgr_paths
            alone = not must and not may and not conflicts and not any(n in o_names for n in names) \
                and not any(self._touch(p, o_paths) for p in paths)
            if out != "ok" and alone:
                f.append({"sig": "valid-program-rejected", "msg": f"add_components #{k} with {names} (unique names, keys nobody else uses), "
                                                                   f"after caught refusals, was refused: {out}"})
            if out == "ok":
                W["A"] = W["A"] + nodes
                new_n, new_p = set(names), set(paths)
            else:
                W["R"] = W["R"] + nodes
                new_n = {n for n in names if n not in a_names}                       # what a refused call can leave behind:
                new_p = {p for p in paths if not self._touch(p, a_paths)}            # not the names / keys it was refused for
                W["Rn"] |= new_n
                W["Rp"] |= new_p
            if any(t["n"] in new_n for t in main_nodes) or any(self._touch(q, new_p) for t in main_nodes for q, _ in t["d"]):
                W["touched"] = True                          # a main batch may legitimately collide with it later on
            W["reads"].append((f"after add_components #{k} ({out}, caught)", done[k]["values"], list(W["A"]), list(W["R"])))
            return True
        pos = 0
        for i in range(m + 1):                               # events with at == i come before main stage i (0 = constructor)
            for k, ev in enumerate(case["faults"]):
                if ev["at"] == i and k in done:
                    if not event(k, ev):
                        return f
            if i < m and i < len(stages) and stages[i]["outcome"] == "ok":
                W["A"] = W["A"] + preorder(forest[pos:pos + cuts[i]])
                pos += cuts[i]
            else:
                break
        return self._judge_faults(case, obs, f, F, W, mgr_paths)

    @staticmethod
    def _expect_faults(case, p, A_t, R_t, n_pre):
        """(known?, token, layer, who): what key p must read at a moment of a fault history - A_t / R_t = the components of
        the calls accepted / refused so far, n_pre = number of operations before setup already made. Highest written layer
        wins, the first write to a layer stays (as in the ordinary oracle); no opinion where only a refused component's
        leftover default could be visible."""
        h = []
        for q, v in case["home"] or []:
            h.append([0, "user_configs", q, v, f"~/vivarium.yaml {v!r}", "home"])
        for q, v in case["ms"]:
            h.append([0, "model_override", q, v, f"model specification {v!r}", "user"])
        for q, v in case["ov"]:
            h.append([0, "override", q, v, f"override argument {v!r}", "user"])
        for q, v in (case["plugins"].get("opt") or {"d": []})["d"]:
            h.append([0, "component_configs", q, v, f"default of the optional manager {v!r}", "default"])
        for t in A_t:
            for q, v in t["d"]:
                h.append([0, "component_configs", q, v, f"default of the accepted component {t['n']} {v!r}", "default"])
        for k, op in enumerate(case["pre"]):
            if op[0] == "w":
                _, q, v, layer, _src = op
                h.append([k + 1, layer if layer is not None else LAYERS[-1], q, v, f"update before setup at {layer or 'the outermost layer'} {v!r}", "pre"])
        best = {}
        for when, layer, q, v, who, kind in h:
            if when > n_pre:
                continue
            if strict_conflict(p, q):
                return False, None, None, None
            if q == p and layer in LAYERS and layer not in best:
                best[layer] = (v, who, kind)
        leftover = any(p == q or strict_conflict(p, q) for t in R_t for q, _ in t["d"])
        builtin = any(under(m_.split(".")[0], p) for m_ in list(MGR_PATHS) + ["input_data", "time"])
        for layer in reversed(LAYERS):
            if layer == "component_configs" and builtin and layer not in best:
                return False, None, None, None
            if layer in best:
                v, who, kind = best[layer]
                if leftover and kind not in ("user", "default"):
                    return False, None, None, None
                return True, tok(v), layer, who
        if leftover:
            return False, None, None, None
        return True, None, None, "nobody"

    def _judge_faults(self, case, obs, f, F, W, mgr_paths):
        A, R = W["A"], W["R"]
        stages, setup = obs["stages"], obs["setup"]
        mgr_names = F["mgrs"]
        outcomes = [s_["outcome"] for s_ in stages] + ([setup["outcome"]] if setup else [])
        completed = setup is not None and setup["outcome"] == "ok"
        caught = setup is not None and setup["outcome"] == "usererror" and bool(case.get("setup_boom"))
        allowed = {"ok", "dupname", "dupvalue"} | ({"structure"} if (F["conflict_default"] or F["conflict_user"] or W["R"] or W["touched"]) else set()) \
            | ({"cfgerr"} if F["conflict_user"] else set()) | ({"other:TypeError", "other:AttributeError"} if (F["gen"] or F["forced"]) else set()) \
            | ({"usererror"} if case.get("setup_boom") else set())
        for o in outcomes:
            if o not in allowed:
                f.append({"sig": "unexpected-exception", "msg": f"stage outcomes {outcomes}"})
                return f
        SIG = {"override": "user-value-lost", "model_override": "user-value-lost", "component_configs": "default-not-applied",
               "user_configs": "home-config-value-lost", "base": "base-layer-value-lost", None: "phantom-value"}

        def judge(p, got, A_t, R_t, n_pre, where):
            known, want, layer, who = self._expect_faults(case, p, A_t, R_t, n_pre)
            if known and got != want:
                f.append({"sig": SIG[layer], "msg": f"{p} {where}: supplied by {who}, configuration returns {got} (expected {want}); "
                                                    f"refused so far: {[(t['n'], t['d']) for t in R_t]}"})
                return False
            return True
        # what every probed key reads after each refused (caught) call
        bad = False
        for where, values, A_t, R_t in W["reads"]:
            for p, got in values:
                if not judge(p, got, A_t, R_t, 0, where):
                    bad = True
                    break
            if bad:
                break
        a_names = [t["n"] for t in A]
        a_paths = [p for t in A for p, _ in t["d"]]
        dup_name = len(set(a_names)) != len(a_names)
        mgr_clash = any(n in mgr_names for n in a_names)
        dup_default = len(set(a_paths)) != len(a_paths) or any(p in mgr_paths for p in a_paths) or len(set(mgr_paths)) != len(mgr_paths)
        conflict_default = any(strict_conflict(a, b) for a in a_paths + mgr_paths for b in a_paths)
        if completed:
            if dup_name:
                f.append({"sig": "duplicate-name-accepted", "msg": f"accepted component names {a_names} were all registered and set up"})
            elif mgr_clash or F["mgr_dup"]:
                f.append({"sig": "manager-name-accepted", "msg": f"components {[n for n in a_names if n in mgr_names]} / managers {mgr_names[-2:]} share a name"})
            elif dup_default:
                f.append({"sig": "duplicate-default-accepted", "msg": f"defaults {[(t['n'], t['d']) for t in A if t['d']]} (+ managers) were all accepted"})
            elif conflict_default:
                f.append({"sig": "conflicting-defaults-accepted", "msg": f"the same key is defaulted at two depths: {[(t['n'], t['d']) for t in A if t['d']]}"})
        if not completed and not caught:
            explained = F["must_reject"] or F["may_reject"] or W["touched"] or dup_name or mgr_clash or dup_default or conflict_default \
                or any(t["n"] in mgr_names for t in R)           # a member of a refused batch that stayed registered bears a manager's name
            if not explained:
                f.append({"sig": "valid-program-rejected", "msg": f"unique names {a_names}, disjoint defaults, nothing left behind by the refused calls "
                                                                   f"{[t['n'] for t in R]} touches them; stage outcomes {outcomes}"})
            return f
        if bad:
            return f
        # registered: every accepted component once; besides them only members of refused batches (what came before the
        # offending component stays registered), each at most once
        done = obs.get("faults") or []
        last_at = [o for o in done if case["faults"][o["k"]]["at"] == len(case["batches"])]
        reg = (last_at[-1]["registered"] if last_at else stages[-1]["registered"]) or []
        r_names = [t["n"] for t in R]
        for n in set(a_names) | set(reg):
            want_lo = a_names.count(n)
            want_hi = want_lo if want_lo else (1 if n in r_names else 0)
            if not (want_lo <= reg.count(n) <= want_hi):
                f.append({"sig": "component-registration-count", "msg": f"{n}: accepted {want_lo} time(s), in refused batches {r_names.count(n)} time(s), registered {reg.count(n)} time(s): {reg}"})
                break
        log = setup["log"]
        comp_calls = [n for k, n in log if k == "comp"]
        for n in set(a_names) | set(comp_calls):
            lo = a_names.count(n) if completed else 0
            hi = a_names.count(n) if a_names.count(n) else (1 if n in r_names else 0)
            if not (lo <= comp_calls.count(n) <= hi):
                f.append({"sig": "component-setup-count", "msg": f"{n}: accepted {a_names.count(n)} time(s), in refused batches {r_names.count(n)} time(s), "
                                                                 f"set up {comp_calls.count(n)} time(s); setup log {comp_calls}" + ("" if completed else " (setup raised, caught)")})
                break
        first_comp = next((i for i, (k, _) in enumerate(log) if k == "comp"), len(log))
        late_mgrs = [n for i, (k, n) in enumerate(log) if k == "mgr" and i > first_comp]
        missing = sorted(set(mgr_names) - {n for k, n in log if k == "mgr"})
        if comp_calls and (late_mgrs or missing):
            f.append({"sig": "component-before-manager", "msg": f"managers set up after the first component: {late_mgrs}; never set up: {missing}"})
        every = a_names + r_names
        if len(set(every)) == len(every):
            pos = {n: i for i, n in enumerate(comp_calls)}
            for t in A + R:
                for c in t["c"]:
                    if t["n"] in pos and c["n"] in pos and pos[c["n"]] < pos[t["n"]]:
                        f.append({"sig": "child-before-parent", "msg": f"{c['n']} was set up before its parent {t['n']}: {comp_calls}"})
                        break
        # values during setup and afterwards
        n_pre = len(case["pre"])
        idx = {p: i for i, p in enumerate(case["probes"])}
        stop = False
        for k, (op, o) in enumerate(zip(case["pre"], obs["pre"])):
            if op[0] == "r" and not stop:
                for p, got in o:
                    if not judge(p, got, A, R, k, f"read before setup (after {k} operations)"):
                        stop = True
                        break
        after = dict(map(tuple, obs["values"])) if obs["values"] is not None else {}
        for p in case["probes"]:
            if stop or obs["values"] is None:
                break
            if not judge(p, after.get(p), A, R, n_pre, "after setup" if completed else "after the setup() that raised"):
                break
            known, want, layer, who = self._expect_faults(case, p, A, R, n_pre)
            wrong = [(n, s_[idx[p]]) for n, s_ in setup["seen"] if s_[idx[p]] != want] if known else []
            if wrong:
                f.append({"sig": SIG[layer], "msg": f"{p}: supplied by {who} (expected {want}), seen during setup: {wrong[:3]}"})
                break
        # metamorphic: against the history in which the refused calls never happened (same case, new objects) - the accepted
        # components are set up in the same order, and every key the refused calls could not legitimately have written
        # (everything except keys only THEY default) reads the same afterwards
        clean = obs.get("clean")
        if clean and clean.get("values") is not None and obs["values"] is not None and clean.get("setup") == setup["outcome"]:
            mine = [n for _, n in log if n in set(clean["log"])]
            if mine != clean["log"]:
                f.append({"sig": "refused-call-changed-history", "msg": f"setup order of the accepted objects: {mine}; without the refused calls {[t['n'] for t in R]}: {clean['log']}"})
            for (p, got), (_, ref) in zip(obs["values"], clean["values"]):
                if got != ref and not self._touch(p, W["Rp"]):
                    f.append({"sig": "refused-call-changed-configuration", "msg": f"{p} reads {got} after setup, {ref} in the history without the refused calls "
                                                                                  f"{[(t['n'], t['d']) for t in R]} (which could not legitimately write it)"})
                    break
        acc = [t for t in setup["tried"] if t[2] == "ok"]
        if acc:
            f.append({"sig": "config-modified-in-setup", "msg": f"writes accepted from inside setup(): {acc}"})
        if obs["values"] is not None:
            views = [s_ for _, s_ in setup["seen"]] + [[v for _, v in obs["values"]]] + [[v for _, v in obs.get("values_end", obs["values"])]]
            if any(v != views[0] for v in views):
                f.append({"sig": "config-changed-after-setup-began", "msg": f"probes {case['probes']}: different values were visible at different moments: {[v for v in views if v != views[0]][:2]} vs {views[0]}"})
        if any(o == "ok" for o in obs["post"]):
            f.append({"sig": "config-modified-after-setup", "msg": f"writes after setup(): {list(zip(case['post'], obs['post']))}"})
        la = obs["late_add"]
        if la and (la["outcome"] == "ok" or la["registered"]) and la["setup_calls"] != 1:
            f.append({"sig": "late-component-never-set-up", "msg": f"add_components after setup(): {la}"})
        if obs["setup_twice"] and obs["setup_twice"]["setup_calls"]:
            f.append({"sig": "component-setup-count", "msg": f"a second setup() ran {obs['setup_twice']['setup_calls']} more setup calls"})
        return f

    def oracle(self, case, obs):
        f = []
        case = fill(case)
        if case["faults"] or case.get("setup_boom"):
            return self._oracle_faults(case, obs)
        F = self._facts(case)
        flat, names, mgr_names = F["flat"], F["names"], F["mgrs"]
        outcomes = [s["outcome"] for s in obs["stages"]] + ([obs["setup"]["outcome"]] if obs["setup"] else [])
        completed = obs["setup"] is not None and obs["setup"]["outcome"] == "ok"
        allowed = {"ok", "dupname", "dupvalue"} | ({"structure"} if (F["conflict_default"] or F["conflict_user"]) else set()) \
            | ({"cfgerr"} if F["conflict_user"] else set()) | ({"other:TypeError", "other:AttributeError"} if (F["gen"] or F["forced"]) else set())
        for o in outcomes:
            if o not in allowed:
                f.append({"sig": "unexpected-exception", "msg": f"stage outcomes {outcomes}"})
                return f
        if F["dup_name"] and completed:
            f.append({"sig": "duplicate-name-accepted", "msg": f"component names {names} were all registered and set up"})
        elif (F["mgr_clash"] or F["mgr_dup"]) and completed:
            f.append({"sig": "manager-name-accepted", "msg": f"components {[n for n in names if n in mgr_names]} / managers {mgr_names[-2:]} share a name"})
        elif F["dup_default"] and completed:
            f.append({"sig": "duplicate-default-accepted", "msg": f"defaults {[(t['n'], t['d']) for t in flat if t['d']]} (+ managers) were all applied"})
        elif F["conflict_default"] and completed:
            f.append({"sig": "conflicting-defaults-accepted", "msg": f"the same key is defaulted at two depths: {[(t['n'], t['d']) for t in flat if t['d']]}"})
        if not F["must_reject"] and not F["may_reject"] and not completed:
            f.append({"sig": "valid-program-rejected", "msg": f"unique names {names}, disjoint defaults, stage outcomes {outcomes}"})
        if not completed:
            return f
        reg = obs["stages"][-1]["registered"] if obs["stages"] else []
        if sorted(reg) != sorted(names):
            f.append({"sig": "component-registration-count", "msg": f"supplied {names}, registered {reg}"})
        log = obs["setup"]["log"]
        comp_calls = [n for k, n in log if k == "comp"]
        # exactly once
        for n in set(names) | set(comp_calls):
            if comp_calls.count(n) != names.count(n):
                f.append({"sig": "component-setup-count", "msg": f"{n}: supplied {names.count(n)} time(s), set up {comp_calls.count(n)} time(s); setup log {comp_calls}"})
                break
        # after all framework managers (the list of the property's anchor, not the implementation's)
        first_comp = next((i for i, (k, _) in enumerate(log) if k == "comp"), len(log))
        late_mgrs = [n for i, (k, n) in enumerate(log) if k == "mgr" and i > first_comp]
        missing = sorted(set(mgr_names) - {n for k, n in log if k == "mgr"})
        if comp_calls and (late_mgrs or missing):
            f.append({"sig": "component-before-manager", "msg": f"managers set up after the first component: {late_mgrs}; never set up: {missing}"})
        # after its parent
        if not F["dup_name"]:
            pos = {n: i for i, n in enumerate(comp_calls)}
            for t in flat:
                for c in t["c"]:
                    if t["n"] in pos and c["n"] in pos and pos[c["n"]] < pos[t["n"]]:
                        f.append({"sig": "child-before-parent", "msg": f"{c['n']} was set up before its parent {t['n']}: {comp_calls}"})
                        break
        # F18: a deletion from a component's setup that is accepted. Exactly this input class gets its own signature; what
        # follows from it (the deleted keys read differently afterwards) is not reported a second time.
        d = obs["setup"].get("deleted")
        gone = d[1] if d and d[2] == "ok" else None
        if gone is not None:
            f.append({"sig": "config-delete-after-freeze",
                      "msg": f"component {d[0]} ran `del builder.configuration.{gone}` inside setup(): accepted, "
                             f"values afterwards {[x for x in obs['values'] if under(gone, x[0])]}"})
        # what every probed key must read – before setup (after each prefix of the writes made then), during setup and
        # afterwards – derived from the HISTORY of writes in the case alone: the highest layer that was written wins
        # (override argument > model specification > the one default > ~/vivarium.yaml > base), a second write to a layer
        # that already has the key is refused and changes nothing
        history = self._history(case)
        idx = {p: i for i, p in enumerate(case["probes"])}
        SIG = {"override": "user-value-lost", "model_override": "user-value-lost", "component_configs": "default-not-applied",
               "user_configs": "home-config-value-lost", "base": "base-layer-value-lost", None: "phantom-value"}

        def expect(p, n_pre):
            """(known?, token, layer, who) after the constructor, the registrations and the first n_pre operations before setup"""
            best = {}
            for when, layer, q, v, who in history:
                if when > n_pre:
                    continue
                if strict_conflict(p, q):
                    return False, None, None, None                # malformed input somewhere around p: no opinion
                if q == p and layer in LAYERS and layer not in best:   # the first write to a layer stays
                    best[layer] = (v, who)
            builtin = any(under(m.split(".")[0], p) for m in list(MGR_PATHS) + ["input_data", "time"])
            for layer in reversed(LAYERS):
                if layer == "component_configs" and builtin and layer not in best:
                    return False, None, None, None                # a built-in manager's default: not the oracle's business
                if layer in best:
                    return True, tok(best[layer][0]), layer, best[layer][1]
            return True, None, None, "nobody"

        def judge(p, got, n_pre, where):
            known, want, layer, who = expect(p, n_pre)
            if known and got != want:
                f.append({"sig": SIG[layer], "msg": f"{p} {where}: supplied by {who}, configuration returns {got} (expected {want})"})
                return False
            return True
        n_pre = len(case["pre"])
        done = False
        for k, (op, o) in enumerate(zip(case["pre"], obs["pre"])):      # reads between the writes before setup
            if op[0] == "r" and not done:
                for p, got in o:
                    if not judge(p, got, k, f"read before setup (after {k} operations)"):
                        done = True
                        break
        after = dict(map(tuple, obs["values"]))
        for p in case["probes"]:
            if done:
                break
            if gone is not None and under(gone, p):
                continue
            if not judge(p, after.get(p), n_pre, "after setup"):
                break
            known, want, layer, who = expect(p, n_pre)
            wrong = [(n, s_[idx[p]]) for n, s_ in obs["setup"]["seen"] if s_[idx[p]] != want] if known else []
            if wrong:
                f.append({"sig": SIG[layer], "msg": f"{p}: supplied by {who} (expected {want}), seen during setup: {wrong[:3]}"})
                break
        # the configuration cannot be modified once setup has begun
        acc = [t for t in obs["setup"]["tried"] if t[2] == "ok"]
        if acc:
            f.append({"sig": "config-modified-in-setup", "msg": f"writes accepted from inside setup(): {acc}"})
        keep = [i for i, p in enumerate(case["probes"]) if not (gone is not None and under(gone, p))]
        views = [s for _, s in obs["setup"]["seen"]] + [[v for _, v in obs["values"]]] + [[v for _, v in obs.get("values_end", obs["values"])]]
        views = [[v[i] for i in keep] for v in views]
        if any(v != views[0] for v in views):
            f.append({"sig": "config-changed-after-setup-began", "msg": f"probes {[case['probes'][i] for i in keep]}: different values were visible at different moments: {[v for v in views if v != views[0]][:2]} vs {views[0]}"})
        if any(o == "ok" for o in obs["post"]):
            f.append({"sig": "config-modified-after-setup", "msg": f"writes after setup(): {list(zip(case['post'], obs['post']))}"})
        if obs["late_add"] and (obs["late_add"]["outcome"] == "ok" or obs["late_add"]["registered"]) and obs["late_add"]["setup_calls"] != 1:
            f.append({"sig": "late-component-never-set-up", "msg": f"add_components after setup(): {obs['late_add']}"})
        if obs["setup_twice"] and obs["setup_twice"]["setup_calls"]:
            f.append({"sig": "component-setup-count", "msg": f"a second setup() ran {obs['setup_twice']['setup_calls']} more setup calls"})
        return f

    # ------------------------------------------------------------------ reporting
    def nontrivial(self, case, obs):
        case = fill(case)
        F = self._facts(case)
        completed = obs["setup"] is not None and obs["setup"]["outcome"] == "ok"
        defaulted = {p for t in F["flat"] for p, _ in t["d"]}
        user = {p for p, _ in case["ov"]} | {p for p, _ in case["ms"]}
        if case["faults"]:                                       # a refusal was caught and the history went on over a user-supplied key
            refused = [case["faults"][o["k"]] for o in obs.get("faults") or [] if o["outcome"] != "ok"]
            return any(p in user for ev in refused for x in preorder(ev["forest"]) for p, _ in x["d"]) and obs["setup"] is not None
        if completed:
            return depth(case["forest"]) >= 2 and bool(defaulted & user)
        return depth(case["forest"]) >= 2 and F["must_reject"]

    def tags(self, case, obs):
        case = fill(case)
        F = self._facts(case)
        flat = F["flat"]
        t = [f"depth:{depth(case['forest'])}", "nodes:" + ("0" if not flat else "1" if len(flat) == 1 else "2-5" if len(flat) <= 5 else "6-10" if len(flat) <= 10 else "11+"),
             "fanout:" + str(max([len(x["c"]) for x in flat] + [0])),
             f"ms:{case['ms_kind']}", f"ov:{case['ov_kind']}", f"clock:{case['plugins']['clock']}",
             "home:" + ("none" if case["home"] is None else "empty" if not case["home"] else "values"),
             f"earlier-simulations:{len(case['before'])}"]
        routes = []
        if case["n_spec"]:
            routes.append("block-" + case["spec_via"] + ("-" + str(case["ms_kind"]) if case["spec_via"] == "ms" else ""))
        if case["batches"][0]:
            routes.append("list")
        if len(case["batches"]) > 1:
            routes.append(f"add-x{len(case['batches']) - 1}")
        t.append("routes:" + ("+".join(routes) or "none"))
        t += ["route:" + r for r in routes]
        for a, k in zip(case["adds"], case["batches"][1:]):
            t.append("add-container:" + a["container"] + ("+nested-group" if a["group"] and k >= 2 else ""))
            if k == 0:
                t.append("add-container:empty")
        if case["plugins"].get("opt"):
            t.append("optional-manager:" + case["plugins"].get("via", "arg") + "-" + case["plugins"].get("arg_kind", "dict"))
        if plugin_dict(case["plugins"]):
            t.append("plugins-via:" + case["plugins"].get("via", "arg"))
        top = {id(x) for x in case["forest"]}
        for x in flat:
            if x.get("lib"):
                t.append("library:" + x["lib"][0] + ("(empty: falsy)" if falsy(x) else ""))
                continue
            t.append("sub_components:" + x.get("sub", "list") + ("" if x["c"] else "(empty)"))
            t.append("defaults-declared:" + (x.get("defs", "property") if x["d"] else "none"))
            t.append("protocol:" + x.get("proto", "plain"))
            for _, kind in x.get("holes") or []:
                t.append("placeholder:" + kind + "@sub_components")
        for x in flat:
            if falsy(x):
                t.append("falsy-component:" + ("top-level" if id(x) in top else "leaf" if not x["c"] else "inner")
                         + ("+defaults" if x["d"] else ""))
        if F["dup_name"]:
            dup = {n for n in F["names"] if F["names"].count(n) > 1}
            k = [falsy(x) for x in flat if x["n"] in dup]
            t.append("fault:duplicate-name:" + ("all-copies-falsy" if all(k) else "one-copy-falsy" if any(k) else "truthy"))
        for _, kind in case["ctor_holes"]:
            t.append("placeholder:" + kind + "@components=")
        for a in case["adds"]:
            for _, kind in a.get("holes") or []:
                t.append("placeholder:" + kind + "@add_components")
        for s in obs["stages"]:
            t.append(f"{s['op']}:{s['outcome']}")
        if obs["setup"]:
            t.append("setup:" + obs["setup"]["outcome"])
            t += ["write-from-setup:" + o for _, _, o in obs["setup"]["tried"]]
            opt = case["plugins"].get("opt")
            if opt and any(n == opt["n"] for n, _, _ in obs["setup"]["tried"]):
                t.append("write-from-setup:by-a-manager")
        for op, o in zip(case["pre"], obs["pre"]):
            if op[0] == "r":
                t.append("read-before-setup")
            else:
                t.append("write-before-setup:" + o + "@" + str(op[3]))
                if op[4] is not None:
                    t.append("write-before-setup:with-source")
        ws = [op for op in case["pre"] if op[0] == "w"]
        for i, op in enumerate(ws):
            for prev in ws[:i]:
                if prev[1] == op[1]:
                    same_layer = (prev[3] or LAYERS[-1]) == (op[3] or LAYERS[-1])
                    t.append("repeat-write:" + ("verbatim" if same_layer and prev[2] == op[2] else "same-layer-other-value" if same_layer else
                             "higher-layer-later" if LAYERS.index(op[3] or LAYERS[-1]) > LAYERS.index(prev[3] or LAYERS[-1]) else "lower-layer-later"
                             if (op[3] or LAYERS[-1]) in LAYERS and (prev[3] or LAYERS[-1]) in LAYERS else "unknown-layer"))
                    break
        if case.get("reuse"):
            t.append("reuse-in-second-simulation:" + case["reuse"])
        if case.get("other"):
            at = case.get("other_at") or [0, 1, 3]
            t.append("second-simulation-alive")
            t.append("second-simulation:constructed-" + ("before" if at[0] == 0 else "after") + "-the-judged-one")
            t.append("second-simulation:set-up-" + ("before" if at[2] <= 2 else "after") + "-the-judged-one")
        if case.get("mode"):
            t += ["mode:" + m for m in case["mode"].split("+")]
        done = {o["k"]: o for o in obs.get("faults") or []}
        user_keys = {p for p, _ in case["ov"]} | {p for p, _ in case["ms"]}
        for k, ev in enumerate(case["faults"]):
            if k not in done:
                t.append("fault-call:not-reached")
                continue
            out = done[k]["outcome"]
            nodes = preorder(ev["forest"])
            t.append(f"fault-call:{ev.get('kind', '?')}:{out}")
            t.append("caught-refusal:" + out if out != "ok" else "fault-call:accepted")
            t.append("fault-call-at:" + ("right-after-the-constructor" if ev["at"] == 1 and len(case["batches"]) > 1 else
                                         "after-the-last-batch" if ev["at"] == len(case["batches"]) else "between-batches"))
            t.append("fault-call-container:" + ev.get("container", "list"))
            t.append(f"fault-call-depth:{depth(ev['forest'])}")
            if ev.get("same_as") is not None:
                t.append("fault-call:same-sequence-object-again")
            if out != "ok":
                wrote = [p for x in nodes for p, _ in x["d"] if p in user_keys]
                t.append("refused-component-defaults-a-user-key" if wrote else "refused-component-defaults-no-user-key")
                before = done[k - 1]["registered"] if k - 1 in done and case["faults"][k - 1]["at"] == ev["at"] else None
                if before is not None and len(done[k]["registered"]) > len(before):
                    t.append("refused-call:earlier-members-stay-registered")
        if case.get("setup_boom"):
            opt = case["plugins"].get("opt")
            t.append("setup-raises:" + ("optional-manager" if opt and opt["n"] == case["setup_boom"] else "component"))
            if obs["setup"]:
                t.append("setup-raises:" + ("caught" if obs["setup"]["outcome"] == "usererror" else "not-reached:" + obs["setup"]["outcome"]))
        for a in case["adds"]:
            if a.get("same_list_as") is not None:
                t.append("repeat-batch:same-sequence-object")
        for x in flat:
            if x.get("share") is not None:
                t.append("sub_components:list-shared-with-another-parent" + ("" if x["c"] else "(empty)"))
        t += ["write-after-setup:" + o + "@" + case["post_handle"] for o in obs["post"]]
        t += ["write-how:" + a[3] for a in case["attempts"]] + ["write-how-after:" + a[2] for a in case["post"]]
        if obs["late_add"]:
            t.append("add-after-setup:" + obs["late_add"]["outcome"])
        if obs["setup_twice"]:
            t.append("second-setup:" + obs["setup_twice"]["outcome"])
        ids = [x["id"] for x in flat]
        if len(set(ids)) != len(ids):
            t.append("fault:same-object-twice")
        elif F["dup_name"]:
            t.append("fault:duplicate-name")
        if F["dup_name"]:
            seen, dd = {}, 0
            stack = [(x, 1) for x in case["forest"]]
            while stack:
                x, d = stack.pop()
                if x["n"] in seen:
                    dd = max(dd, d, seen[x["n"]])
                seen.setdefault(x["n"], d)
                stack += [(c, d + 1) for c in x["c"]]
            t.append(f"fault:duplicate-depth:{dd}")
            owner = {}
            pos, k = 0, 0
            cuts = [case["n_spec"], case["batches"][0]] + case["batches"][1:]
            for bi, kk in enumerate(cuts):
                for tr in case["forest"][pos:pos + kk]:
                    for x in preorder([tr]):
                        owner.setdefault(x["n"], set()).add(bi)
                pos += kk
            if any(len(v) > 1 for v in owner.values()):
                t.append("fault:duplicate-across-routes")
        if F["mgr_clash"]:
            t.append("fault:manager-name" + ("(optional manager)" if case["plugins"].get("opt") and case["plugins"]["opt"]["n"] in F["names"] else ""))
        if F["mgr_dup"]:
            t.append("fault:two-managers-one-name")
        if F["dup_default"]:
            t.append("fault:duplicate-default")
        if F["conflict_default"]:
            t.append("fault:same-key-two-depths(defaults)")
        if F["conflict_user"]:
            t.append("fault:same-key-two-depths(user)")
        if F["gen"]:
            t.append("outside-signature:generator-sub_components")
        if not (F["must_reject"] or F["may_reject"]):
            t.append("valid-program")
        defaulted = {p for x in flat for p, _ in x["d"]}
        ov, ms, home = {p for p, _ in case["ov"]}, {p for p, _ in case["ms"]}, {p for p, _ in (case["home"] or [])}
        mgrp = set(MGR_PATHS)
        for lab, s in (("ov>ms>default", ov & ms & defaulted), ("ov>default", (ov - ms) & defaulted), ("ms>default", (ms - ov) & defaulted),
                       ("ov>ms", (ov & ms) - defaulted), ("user>manager-default", (ov | ms) & mgrp), ("default-only", defaulted - ov - ms),
                       ("user-only", (ov | ms) - defaulted - mgrp), ("default>home", (home & defaulted) - ov - ms), ("home-only", home - defaulted - ov - ms - mgrp),
                       ("user>home", home & (ov | ms))):
            if s:
                t.append("layering:" + lab)
        for lab, kind, pairs in (("ov", case["ov_kind"], case["ov"]), ("ms", case["ms_kind"], case["ms"]), ("home", "yaml", case["home"] or []),
                                 ("default", "component", [x for n in flat for x in n["d"]])):
            for pth, v in pairs:
                vk = "None" if v is None else "bool" if isinstance(v, bool) else "0" if v == 0 else "int" if isinstance(v, int) else \
                    "float" if isinstance(v, float) else ("empty-str" if v == "" else "str") if isinstance(v, str) else \
                    ("empty-list" if v == [] else "list") if isinstance(v, list) else "other"
                t.append(f"value:{vk}@{lab}" + (f"-{kind}" if lab in ("ov", "ms") else ""))
                if lab != "default":
                    t.append(f"user-key-depth:{pth.count('.') + 1}")
                    if vk in ("None", "0", "empty-str", "empty-list") or v is False:
                        if pth in defaulted or pth in mgrp:
                            t.append(f"falsy-user-value-over-default:{vk}")
        if obs["setup"] and obs["setup"].get("deleted"):
            d = obs["setup"]["deleted"]
            t.append("delete-from-setup:" + d[2])
            t.append("delete-how:" + case["delete"][1])
            if d[2] == "ok":
                t.append("delete-target:" + ("section" if "." not in d[1] else "leaf-or-subtree"))
                if any(under(d[1], p) for p, _ in case["ov"] + case["ms"]):
                    t.append("delete-target:user-supplied-key")
        return t

    def sample_view(self, case, obs):
        case = fill(case)
        return {"forest": [self._show(t) for t in case["forest"]], "routes": [case["n_spec"], case["spec_via"], case["batches"]],
                "ms": [case["ms_kind"], case["ms"]], "ov": [case["ov_kind"], case["ov"]], "home": case["home"], "plugins": case["plugins"],
                "earlier_simulations": len(case["before"]),
                "refusals_caught": [[ev["at"], ev.get("kind"), [self._show(x) for x in ev["forest"]], o["outcome"]]
                                    for o in obs.get("faults") or [] for ev in [case["faults"][o["k"]]]][:4],
                "setup_raises": case.get("setup_boom"),
                "stages": [[s["op"], s["outcome"]] for s in obs["stages"]],
                "setup": obs["setup"] and {"outcome": obs["setup"]["outcome"], "order": [n for _, n in obs["setup"]["log"]][-8:],
                                           "tried": obs["setup"]["tried"], "deleted": obs["setup"].get("deleted")},
                "values": obs["values"]}

    def _show(self, t):
        return {t["n"]: [dict((p, repr(v)) for p, v in t["d"]), t.get("lib") or [t.get("sub"), t.get("defs"), t.get("proto")],
                         [self._show(c) for c in t["c"]]]}


PROP = C20()
