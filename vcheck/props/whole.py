"""WHOLE — end-to-end correspondence: a whole small simulation computed by the Lean model from the configuration
alone (`lean/VivModel/Model/Whole.lean`: SHA-1 + MT19937 block + CRN index map + streams + filter / choice + state
machine + event order + clock + simulant creation + untracking, COMPOSED) against the real `SimulationContext`
running the exact probe components of `vcheck/wholekit.py`. The complete state table and the index-map positions are
compared cell by cell after the initial creation and after every time step; a raising run is compared by the
stage at which it raised and the class of the exception.

Not one of the 20 listed properties: an additional correspondence target (cited by C01 / C04 / C02 reports).
"""
from __future__ import annotations

import math
import random

from ..runner import Prop

PRIMES = [5, 17, 19, 23, 29, 31, 41, 43, 47, 53, 59, 61, 67, 71, 73, 79, 83, 89, 97, 101, 103, 107, 109, 113, 127, 131, 137, 139,
          149, 151, 157, 163, 167, 173, 179, 181, 191, 193, 197, 199, 211, 223, 227, 229, 233, 239, 241, 251, 257, 263, 269, 271,
          307, 401, 503, 601, 701, 809, 907, 1009, 1511, 2003]


def _lst(l):
    return "-" if not l else ",".join(str(int(x)) for x in l)


def _lists(ll):
    return "-" if not ll else ";".join(_lst(l) for l in ll)


def total_simulants(cfg):
    return cfg["pop"] + sum(sum(r) for r in cfg["births"][: max(cfg["nSteps"], 0)])


def block_size(cfg):
    return max(cfg["mapSize"], 10 * cfg["pop"])


def crn_safe(cfg):
    """with key columns the collision loop of the real IndexMap has no bound: only sizes with far more reachable
    positions than simulants are generated (salt shift = ncols * 111111 per round; see C03 / F11)"""
    if not cfg["keyCols"]:
        return True
    size = block_size(cfg)
    g = math.gcd(size, len(cfg["keyCols"]) * 111111)
    return size // g >= 2 * total_simulants(cfg) + 3


def init_line(cfg):
    from .. import wholekit as wk
    trans = [[x for (o, w) in sp["trans"] for x in [o] + list(w)] for sp in cfg["states"]]
    return " ".join(["init", wk.seed_string(cfg), str(cfg["pop"]), str(cfg["mapSize"]), str(cfg["start"]), str(cfg["step"]),
                     str(cfg["stop"]), _lst(cfg["keyCols"]), str(cfg["keyBits"]), str(int(cfg["keyFloat"])), str(cfg["sexW"]),
                     _lists(cfg["births"]), str(int(cfg["akPerPhase"])), _lst(cfg["order"]), _lst(cfg["birthPrio"]),
                     str(cfg["mortPhase"]), str(cfg["mortPrio"]), str(cfg["disPhase"]), str(cfg["disPrio"]),
                     _lists(cfg["mortP"]), _lists(cfg["initW"]), _lst([int(sp["selfOk"]) for sp in cfg["states"]]), _lists(trans)])


def show_table(tab):
    if not tab:
        return "-"
    return ";".join(",".join("n" if x is None else str(x) for x in row) for row in tab)


def show_pos(pos):
    if pos is None:
        return None
    return "-" if not pos else ",".join("x" if p is None else str(p) for p in pos)


BASE = dict(seed=3, addSeed=None, pop=5, mapSize=101, start=0, step=1, stop=3, nSteps=3, keyCols=[0, 1], keyBits=30,
            keyFloat=False, sexW=8, births=[[0, 2, 0, 0], [1, 0, 0, 1], [0, 0, 3, 0]], akPerPhase=True, order=[0, 1, 2],
            birthPrio=[5, 5, 5, 5], mortPhase=1, mortPrio=5, disPhase=1, disPrio=5, mortP=[[2, 4, 8], [1, 3, 5]],
            initW=[[8, 4, 4], [16, 0, 0]],
            states=[{"selfOk": True, "trans": [[1, [4, 8]], [2, [2, 2]]]}, {"selfOk": True, "trans": [[2, [8, 8]]]},
                    {"selfOk": True, "trans": []}])


def variant(**kw):
    import copy
    c = copy.deepcopy(BASE)
    c.update(kw)
    return c


class Whole(Prop):
    id = "WHOLE"
    lean_modules = ["VivModel.Props.Whole"]
    build_targets = ["VivModel.Model.Whole", "VivModel.Model.Proto"]
    driver = "Whole"
    technique = ("Lean 4 executable end-to-end model composed from the sub-models (SHA-1, MT19937, index map, streams, "
                 "state machine, events, clock) + theorems about the composition (run = iterated step, resume at any "
                 "boundary, fresh labels, untracked rows frozen, draws in range, initial CRN attributes in closed form) + "
                 "exact cell-by-cell correspondence with real SimulationContext runs after every step")
    partial = ("the model covers the probe components of vcheck/wholekit.py (every value exact in binary64) under a SimpleClock; "
               "DateTimeClock, pipelines, lookup tables, results and per-simulant clocks are tied by C08/C10/C14/C15/C16, not here; "
               "termination of the index map's collision loop is a hypothesis (fuel), sizes with few reachable positions are not generated")
    trusted_extra = ["vcheck/wholekit.py: every float the probe components compute is exact (powers of two, sixteenths, integers)"]
    n_quick = 56
    n_thorough = 900
    workers = 8
    case_timeout = 90
    rule = ("case = one configuration (seed, population 0-12, map size, clock, key columns, births per step and channel, "
            "priorities, component order, mortality table, machine); run for real step by step, through run(), and with another "
            "births schedule; non-trivial = at least one completed step with simulants, or a refusal that the model predicts")

    # ------------------------------------------------------------------ generation
    def boundary(self):
        b = []
        b.append(variant())                                                             # the documented example
        b.append(variant(pop=0, births=[[0, 0, 0, 0], [0, 1, 0, 0], [2, 0, 0, 1]]))      # empty initial population, later births
        b.append(variant(pop=0, births=[], nSteps=2, stop=2))                          # nobody, ever
        b.append(variant(nSteps=0, stop=0, births=[]))                                 # no step at all
        b.append(variant(keyCols=[], mapSize=7, pop=1, births=[[3, 3, 3, 3]] * 3))      # no CRN: label outside the block -> IndexError
        b.append(variant(keyCols=[], mapSize=2, pop=0, births=[[3, 0, 0, 0]], nSteps=1, stop=1))   # positional draws longer than the block
        b.append(variant(keyCols=[0], pop=1, births=[[0, 1, 0, 0], [0, 1, 0, 0], [0, 2, 0, 0]]))   # entrance alone: unique until two are born together
        b.append(variant(keyCols=[0], pop=3))                                          # entrance alone: duplicate keys at the initial creation
        b.append(variant(akPerPhase=False, births=[[1, 1, 0, 0]] * 3))                 # two creation sites at one clock time: identical keys
        b.append(variant(keyBits=2, keyCols=[1], pop=8, mapSize=211))                  # 2-bit keys: duplicates by pigeonhole
        b.append(variant(keyFloat=True, keyBits=20, keyCols=[1, 0], mapSize=59))        # float key column (_shift), reversed key order
        b.append(variant(keyBits=53, keyCols=[1], mapSize=67))                          # _spread overflows int64
        b.append(variant(mapSize=23, pop=6, births=[[0, 1, 0, 0]] * 3))                # block-size rule: 10 * pop > map_size
        b.append(variant(start=-3, step=2, stop=2, nSteps=3, mapSize=47))              # negative times in seed strings and salts
        b.append(variant(step=3, start=5, stop=12, nSteps=3))                          # end not a multiple of the step
        b.append(variant(mortPhase=1, mortPrio=2, disPhase=1, disPrio=7, mortP=[[8, 8, 8], [8, 8, 8]]))   # mortality before disease
        b.append(variant(mortPhase=1, mortPrio=7, disPhase=1, disPrio=2, mortP=[[8, 0, 16], [0, 8, 16]]))  # disease before mortality
        b.append(variant(order=[2, 1, 0], mortP=[[8, 0, 16], [0, 8, 16]]))              # registration order decides inside one priority
        b.append(variant(mortPhase=3, disPhase=0, birthPrio=[0, 9, 0, 9]))
        b.append(variant(sexW=0))
        b.append(variant(sexW=16, mortP=[[16, 16, 16], [0, 0, 0]]))                     # everybody male, everybody leaves
        b.append(variant(states=[{"selfOk": False, "trans": [[1, [8, 8]], [2, [8, 0]]]}, {"selfOk": False, "trans": [[0, [16, 16]]]},
                                 {"selfOk": True, "trans": [[0, [16, 4]]]}]))           # no null transition; probability-1 transitions
        b.append(variant(states=[{"selfOk": True, "trans": [[1, [12, 8]], [2, [8, 2]]]}, {"selfOk": True, "trans": []},
                                 {"selfOk": True, "trans": []}]))                        # weights above 1 with a null transition: refused
        b.append(variant(states=[{"selfOk": False, "trans": [[1, [0, 8]]]}, {"selfOk": True, "trans": []}],
                         initW=[[16, 0], [8, 8]], mortP=[[0, 0], [0, 0]]))              # no valid transition for one sex
        b.append(variant(addSeed=7, seed=12))
        b.append(variant(addSeed="x9", seed=0, mapSize=1009))
        return b

    def generate(self, rng: random.Random, i: int, tier: str):
        thorough = tier == "thorough"
        for _ in range(200):
            cfg = self._gen(rng, thorough)
            if crn_safe(cfg):
                return cfg
        return variant()

    def _gen(self, rng, thorough):
        pop = rng.choice([0, 1, 1, 2, 3, 4, 5, 6, 7, 8, 9, 10, 11, 12])
        n_steps = rng.choice([0, 1, 2, 2, 3, 3, 4, 4, 5, 6] if thorough else [0, 1, 1, 2, 2, 2, 3, 3, 4, 5, 6])
        step = rng.choice([1, 1, 1, 2, 3])
        start = rng.choice([0, 0, 0, 1, 3, 7, 100, -3, -1])
        slack = rng.randrange(step) if n_steps else rng.choice([0, 1])
        stop = start + step * n_steps - slack
        key_cols = rng.choice([[], [], [1], [1], [0, 1], [0, 1], [0, 1], [0, 1], [1, 0], [1, 0], [1, 0], [0] if pop <= 1 or rng.random() < 0.2 else [0, 1]])
        key_float = rng.random() < 0.3
        key_bits = rng.choice([20, 20, 20, 16, 10, 3] if key_float else [30, 30, 30, 30, 53, 50, 20, 20, 8, 4, 2])
        n_sched = max(0, n_steps + rng.choice([0, 0, 0, -1, 1]))
        dens = rng.choice([0.15, 0.3, 0.5])
        births = [[(rng.randint(1, 3) if rng.random() < dens else 0) for _ in range(4)] for _ in range(n_sched)]
        cfg = dict(seed=rng.choice([0, 1, 2, 7, 42, rng.randrange(10 ** 6), rng.randrange(2 ** 31)]),
                   addSeed=rng.choice([None, None, None, rng.randrange(100), rng.choice(["a", "x9", "s_1"])]),
                   pop=pop, mapSize=1, start=start, step=step, stop=stop, nSteps=n_steps, keyCols=key_cols, keyBits=key_bits,
                   keyFloat=key_float, sexW=rng.choice([0, 16, 8, 8, 4, 12, rng.randint(1, 15)]), births=births,
                   akPerPhase=rng.random() < 0.85, order=rng.sample([0, 1, 2], 3),
                   birthPrio=[5, 5, 5, 5] if rng.random() < 0.4 else [rng.randrange(10) for _ in range(4)],
                   mortPhase=rng.choice([1, 1, 1, 0, 2, 3]), mortPrio=rng.choice([5, 5, rng.randrange(10)]),
                   disPhase=rng.choice([1, 1, 1, 0, 2, 3]), disPrio=rng.choice([5, 5, rng.randrange(10)]))
        ns = rng.choice([2, 3, 3, 4])
        cfg["mortP"] = [[rng.choice([0, 0, 1, 2, 4, 8, 16, rng.randint(0, 16)]) for _ in range(ns)] for _ in range(2)]
        cfg["initW"] = [self._split(rng, 16, ns) for _ in range(2)]
        states = []
        for j in range(ns):
            self_ok = rng.random() < 0.7
            others = [k for k in range(ns) if k != j]
            nt = rng.choice([0, 1, 1, 2, 2]) if others else 0
            outs = rng.sample(others, min(nt, len(others)))
            if rng.random() < 0.1 and outs:
                outs.append(j)                                              # a declared loop transition
            ws = [self._weights(rng, self_ok, len(outs)) for _ in range(2)]  # one weight row per sex
            states.append({"selfOk": self_ok, "trans": [[o, [ws[0][k], ws[1][k]]] for k, o in enumerate(outs)]})
        cfg["states"] = states
        # map size: small primes (collisions do occur), sometimes below 10 * pop (block-size rule), sometimes large
        total = total_simulants(cfg)
        if not key_cols:
            cfg["mapSize"] = rng.choice([max(1, total - 1), total + 1, 10 * pop + 1, 50, 97, 1, 3]) if rng.random() < 0.5 else rng.choice(PRIMES)
        else:
            lo = 2 * total + 3
            cands = [p for p in PRIMES if lo <= p <= max(6 * total, 60)] or [p for p in PRIMES if p >= lo][:3]
            r = rng.random()
            if r < 0.2 and pop:
                cfg["mapSize"] = rng.choice([1, 7, 10 * pop - 1, 10 * pop])     # the block is 10 * pop
            elif r < 0.3:
                cfg["mapSize"] = rng.choice([1009, 1511, 2003] if thorough else [503, 1009, 2003])
            else:
                cfg["mapSize"] = rng.choice(cands)
        return cfg

    @staticmethod
    def _split(rng, total, n):
        cuts = sorted(rng.randint(0, total) for _ in range(n - 1))
        parts = [b - a for a, b in zip([0] + cuts, cuts + [total])]
        rng.shuffle(parts)
        return parts

    def _weights(self, rng, self_ok, n):
        """one weight row (sixteenths) on which every division the framework performs is exact"""
        if n == 0:
            return []
        r = rng.random()
        if r < 0.03:                                    # refused: two probability-1 transitions / nothing valid / above 1
            return [16] * n if n > 1 else ([0] if not self_ok else [16])
        if r < 0.16:                                    # a probability-1 transition, the others 0
            row = [0] * n
            row[rng.randrange(n)] = 16
            return row
        if self_ok:
            if r < 0.18:
                return [rng.randint(9, 15) for _ in range(n)]     # may exceed 1 (n > 1): refused
            return self._split(rng, rng.choice([16, 12, 8, 5, 3, 0]), n + 1)[:n]
        return self._split(rng, rng.choice([16, 8, 4, 2, 1]), n)

    # ------------------------------------------------------------------ implementation
    def run_impl(self, cfg):
        from .. import wholekit as wk
        obs = wk.run(cfg, "step")
        obs2 = wk.run(cfg, "run")
        obs["run_final"] = obs2["steps"][-1] if obs2["steps"] else None
        obs["run_clock"] = obs2["clocks"][-1] if obs2["clocks"] else None
        obs["run_error"] = obs2["error"]
        obs["run_positions"] = obs2["positions"]
        # another scenario: different births, mortality, machine parameters -> the initial CRN attributes must not move
        import copy
        other = copy.deepcopy(cfg)
        other["births"] = [[(x + 1) % 3 for x in r] for r in cfg["births"]] + [[1, 0, 2, 0]]
        other["mortP"] = [[(x * 7 + 3) % 17 for x in r] for r in cfg["mortP"]]
        other["order"] = list(reversed(cfg["order"]))
        obs3 = wk.run(other, "init")
        obs["other_init"] = obs3["init"]
        obs["other_error"] = obs3["error"]
        return obs

    # ------------------------------------------------------------------ model
    def model_lines(self, cfg, obs):
        n_done = len(obs["steps"])
        n = n_done + (1 if obs["error"] and isinstance(obs["error"]["at"], int) else 0)
        if obs["init"] is None:
            n = 0
        return [init_line(cfg)] + ["step"] * n + ["run 64"]

    def compare(self, cfg, obs, replies):
        out = []
        stages = [("init", obs["init"], obs["positions_by_stage"][0] if obs.get("positions_by_stage") else None)]
        for k, t in enumerate(obs["steps"]):
            stages.append((k, t, obs["positions_by_stage"][k + 1] if obs.get("positions_by_stage") and len(obs["positions_by_stage"]) > k + 1 else None))
        err = obs["error"]
        if err and err["at"] == "setup":
            return [] if replies[0] == "bad-config" else [f"setup refused by the implementation ({err['msg']}), model: {replies[0][:80]}"]
        if replies[0] == "bad-config":
            return ["model refuses the configuration, implementation ran"]
        clocks = obs["clocks"]
        for i, (name, tab, pos) in enumerate(stages):
            if tab is None:
                break
            want = f"ok {clocks[i]} {show_table(tab)}"
            got = replies[i]
            if pos is not None:
                want += " " + show_pos(pos)
            else:
                got = " ".join(got.split(" ")[:3])
            if got != want:
                out.append(f"stage {name}: model `{got[:400]}` != implementation `{want[:400]}`")
                break
        if err and not out:
            i = 0 if err["at"] == "init" else (err["at"] + 1 if isinstance(err["at"], int) else None)
            if i is None:
                out.append(f"implementation raised at {err['at']}: {err['msg']}")
            elif replies[i] != f"err {err['class']}":
                out.append(f"stage {err['at']}: implementation raised {err['class']} ({err['msg'][:120]}), model `{replies[i][:200]}`")
        # run(): the model's while loop against the real run()
        last = replies[-1]
        if obs["run_error"]:
            if last != f"err {obs['run_error']['class']}":
                out.append(f"run(): implementation raised {obs['run_error']['class']}, model `{last[:200]}`")
        elif obs["run_final"] is not None:
            want = f"ok {obs['run_clock']} {show_table(obs['run_final'])}"
            if obs.get("run_positions") is not None:
                want += " " + show_pos(obs["run_positions"])
            if last != want:
                out.append(f"run(): model `{last[:400]}` != implementation `{want[:400]}`")
        return out

    # ------------------------------------------------------------------ oracle (independent of the model)
    def oracle(self, cfg, obs):
        f = []

        def fail(sig, msg):
            f.append({"sig": sig, "msg": msg})

        err = obs["error"]
        if err and str(err["class"]).startswith("other"):
            fail("unexpected-exception", f"{err}")
        if err and err["at"] in ("finalize",):
            fail("unexpected-exception", f"{err}")
        if obs["init"] is None:
            return f
        tabs = [obs["init"]] + obs["steps"]
        clocks = obs["clocks"]
        B = cfg["keyBits"]
        # clock: start, start + step, ...
        for k, c in enumerate(clocks):
            if c != cfg["start"] + k * cfg["step"]:
                fail("clock", f"clock after stage {k} is {c}, expected {cfg['start'] + k * cfg['step']}")
                break
        prev = []
        for k, tab in enumerate(tabs):
            labels = [r[0] for r in tab]
            if labels != list(range(len(tab))):
                fail("labels-not-fresh", f"stage {k}: labels {labels}")
                break
            if len(tab) < len(prev):
                fail("rows-removed", f"stage {k}: {len(prev)} -> {len(tab)} rows")
                break
            for old, new in zip(prev, tab):
                if old[2:5] != new[2:5]:
                    fail("creation-attribute-changed", f"stage {k}: simulant {old[0]} key/entrance/sex {old[2:5]} -> {new[2:5]}")
                if old[1] == 0 and new != old:
                    fail("untracked-changed", f"stage {k}: untracked simulant {old} -> {new}")
                if old[1] == 1 and new[1] == 0 and new[6] != clocks[k]:
                    fail("exit-time", f"stage {k}: simulant {new[0]} untracked during the step ending at {clocks[k]} has exit {new[6]}")
            for r in tab:
                if any(x is None for x in r[:6]) or any(isinstance(x, list) for x in r):
                    fail("cell-not-exact", f"stage {k}: row {r}")
                    continue
                if (r[1] == 1) != (r[6] is None):
                    fail("exit-iff-untracked", f"stage {k}: row {r}")
                if not 0 <= r[2] < 2 ** B:
                    fail("key-out-of-range", f"stage {k}: row {r}")
                if r[5] >= len(cfg["states"]):
                    fail("state-unknown", f"stage {k}: row {r}")
            # creation time: the fencepost for the initial population, the clock (not the event time) for births
            new_rows = tab[len(prev):]
            want_ent = cfg["start"] - cfg["step"] if k == 0 else clocks[k - 1]
            for r in new_rows:
                if r[3] != want_ent:
                    fail("creation-time", f"stage {k}: simulant {r[0]} has entrance {r[3]}, created at clock {want_ent}")
                if k > 0 and r[1] == 0 and r[6] != clocks[k]:
                    fail("exit-time", f"stage {k}: newborn {r}")
            want_n = cfg["pop"] if k == 0 else (sum(cfg["births"][k - 1]) if k - 1 < len(cfg["births"]) else 0)
            if len(new_rows) != want_n:
                fail("creation-count", f"stage {k}: {len(new_rows)} simulants created, schedule says {want_n}")
            prev = tab
        # index-map positions: distinct, inside the block; identity without key columns
        pbs = obs.get("positions_by_stage") or []
        size = obs.get("size")
        for k, pos in enumerate(pbs):
            if pos is None:
                continue
            if any(p is None for p in pos):
                fail("position-missing", f"stage {k}: {pos}")
            elif cfg["keyCols"]:
                if len(set(pos)) != len(pos) or any(not 0 <= p < size for p in pos):
                    fail("positions-not-injective-in-range", f"stage {k}: {pos} size {size}")
                if k and pbs[k - 1] is not None and pos[: len(pbs[k - 1])] != pbs[k - 1]:
                    fail("position-moved", f"stage {k}: {pbs[k - 1]} -> {pos}")
            elif pos != list(range(len(pos))):
                fail("positions-not-identity", f"stage {k}: {pos}")
        # C04 on the real map: a simulant sits at the first hash of its key (salt = the clock of its creation) unless a
        # simulant registered before it or with it holds that position
        fh = obs.get("first_hashes")
        if fh:
            holder = {p_: (lab_, t_) for lab_, p_, f_, t_ in fh}
            for lab_, p_, f_, t_ in fh:
                if p_ != f_:
                    h = holder.get(f_)
                    if h is None or h[1] > t_:
                        fail("position-not-first-hash", f"simulant {lab_} (created at {t_}) sits at {p_}, the first hash {f_} of its key "
                                                        f"is {'free' if h is None else 'held by the later simulant ' + str(h[0])}")
                        break
        # mortality called before the machine (channel, priority, registration order): whoever leaves during a step has
        # not been moved by the machine in that step
        mpos = (cfg["mortPhase"], cfg["mortPrio"], cfg["order"].index(1))
        dpos = (cfg["disPhase"], cfg["disPrio"], cfg["order"].index(2))
        if mpos < dpos:
            for k in range(1, len(tabs)):
                for old, new in zip(tabs[k - 1], tabs[k]):
                    if old[1] == 1 and new[1] == 0 and old[5] != new[5]:
                        fail("left-but-moved", f"stage {k}: simulant {new[0]} left during the step (mortality is called before the "
                                               f"machine) but its state changed {old[5]} -> {new[5]}")
        if size is not None and size != max(cfg["mapSize"], 10 * cfg["pop"]):
            fail("block-size", f"block size {size}, configured map_size {cfg['mapSize']}, population {cfg['pop']}")
        # run() = step() x n ; same configuration twice = same tables
        if err is None and obs["run_error"] is None and obs["steps"]:
            if obs["run_final"] != obs["steps"][-1] or obs["run_clock"] != clocks[-1]:
                fail("run-differs-from-steps", f"run(): clock {obs['run_clock']} table {show_table(obs['run_final'])[:300]}; "
                                               f"step by step: clock {clocks[-1]} table {show_table(obs['steps'][-1])[:300]}")
        if (err is None) != (obs["run_error"] is None) and not (err and err["at"] == "finalize"):
            fail("run-differs-from-steps", f"step by step: {err}; run(): {obs['run_error']}")
        # another scenario (births, mortality, order): same initial population
        if obs["other_init"] != obs["init"]:
            fail("initial-population-depends-on-scenario", f"{show_table(obs['init'])[:300]} vs {show_table(obs['other_init'])[:300]}")
        return f

    # ------------------------------------------------------------------ reporting
    def nontrivial(self, cfg, obs):
        if obs.get("error"):
            return obs["init"] is not None or obs["error"]["at"] == "init"
        return bool(obs["steps"]) and bool(obs["steps"][-1])

    def tags(self, cfg, obs):
        t = [f"pop:{'0' if cfg['pop'] == 0 else '1' if cfg['pop'] == 1 else '2-6' if cfg['pop'] <= 6 else '7-12'}",
             f"steps:{cfg['nSteps']}", f"keycols:{'+'.join(map(str, cfg['keyCols'])) or 'none'}",
             f"key:{'float' if cfg['keyFloat'] else 'int'}:{cfg['keyBits']}bits", f"states:{len(cfg['states'])}",
             "ak:per-site" if cfg["akPerPhase"] else "ak:shared", f"mort@{cfg['mortPhase']}", f"dis@{cfg['disPhase']}"]
        if 10 * cfg["pop"] > cfg["mapSize"]:
            t.append("block=10*pop")
        if cfg["mortPhase"] == cfg["disPhase"]:
            t.append("mort-before-dis" if (cfg["mortPrio"], cfg["order"].index(1)) < (cfg["disPrio"], cfg["order"].index(2)) else "dis-before-mort")
            if cfg["mortPrio"] == cfg["disPrio"]:
                t.append("same-priority:registration-order-decides")
        if cfg.get("addSeed") is not None:
            t.append("additional-seed")
        if cfg["start"] - cfg["step"] < 0:
            t.append("negative-time")
        err = obs.get("error")
        t.append(f"outcome:{'ok' if not err else 'raised:' + str(err['class']) + '@' + ('step' if isinstance(err['at'], int) else str(err['at']))}")
        if obs.get("steps"):
            last = obs["steps"][-1]
            births = len(last) - len(obs["init"] or [])
            t.append("births:" + ("0" if births == 0 else "1-3" if births <= 3 else "4+"))
            if any(r[1] == 0 for r in last):
                t.append("untracked:some")
            if any(r[5] != r0[5] for r, r0 in zip(last, obs["init"] or [])):
                t.append("machine-moved")
            for ph in range(4):
                if any(k < len(cfg["births"]) and cfg["births"][k][ph] for k in range(len(obs["steps"]))):
                    t.append(f"births@{ph}")
        if obs.get("collisions"):
            t.append("hash-collision:resolved")
        elif cfg["keyCols"] and obs.get("collisions") == 0:
            t.append("hash-collision:none")
        return t

    def shrink(self, cfg):
        import copy

        def v(**kw):
            c = copy.deepcopy(cfg)
            c.update(kw)
            return c
        if cfg["nSteps"] > 0:
            n = cfg["nSteps"] - 1
            yield v(nSteps=n, stop=cfg["start"] + cfg["step"] * n, births=cfg["births"][:n])
        if cfg["pop"] > 0:
            yield v(pop=cfg["pop"] // 2)
            yield v(pop=cfg["pop"] - 1)
        for k, row in enumerate(cfg["births"]):
            for ph in range(4):
                if row[ph]:
                    b = copy.deepcopy(cfg["births"])
                    b[k][ph] = 0
                    yield v(births=b)
        if cfg["order"] != [0, 1, 2]:
            yield v(order=[0, 1, 2])
        if cfg["birthPrio"] != [5, 5, 5, 5]:
            yield v(birthPrio=[5, 5, 5, 5])
        if any(x for r in cfg["mortP"] for x in r):
            yield v(mortP=[[0] * len(r) for r in cfg["mortP"]])
        for j, sp in enumerate(cfg["states"]):
            if sp["trans"]:
                s = copy.deepcopy(cfg["states"])
                s[j]["trans"] = sp["trans"][:-1]
                yield v(states=s)
        if cfg.get("addSeed") is not None:
            yield v(addSeed=None)
        if cfg["start"] != 0:
            yield v(start=0, stop=cfg["stop"] - cfg["start"])
        if cfg["keyCols"]:
            yield v(keyCols=[])

    def sample_view(self, cfg, obs):
        return {"case": cfg, "observed": {"init": show_table(obs.get("init"))[:400], "last": show_table((obs.get("steps") or [None])[-1])[:600],
                                          "error": obs.get("error"), "clocks": obs.get("clocks")}}


PROP = Whole()
