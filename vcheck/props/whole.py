"""WHOLE — end-to-end correspondence: a whole small simulation computed by the Lean model from the configuration
alone (`lean/VivModel/Model/Whole.lean`: SHA-1 + MT19937 block + CRN index map + streams + filter / choice + state
machine + event order + clock + simulant creation + untracking, COMPOSED) against the real `SimulationContext`
running the exact probe components of `vcheck/wholekit.py`. The complete state table and the index-map positions are
compared cell by cell after the initial creation and after every time step; a raising run is compared by the
stage at which it raised and the class of the exception.

Opt-in parts of the configuration (see `vcheck/wholekit.py`): an `age` column, a lookup table + value pipeline for the
mortality probability (compared: the value per asked simulant), an observer with stratifications and adding observations
(compared: `get_results()` after every step), a DateTimeClock with per-simulant step modifiers (`Model/WholeDt.lean`;
compared: the clock columns of every simulant and the global step).

Not one of the 20 listed properties: an additional correspondence target (cited by C01 / C04 / C02 reports).
"""
from __future__ import annotations

import math
import random

from ..runner import Prop

PRIMES = [5, 17, 19, 23, 29, 31, 41, 43, 47, 53, 59, 61, 67, 71, 73, 79, 83, 89, 97, 101, 103, 107, 109, 113, 127, 131, 137, 139,
          149, 151, 157, 163, 167, 173, 179, 181, 191, 193, 197, 199, 211, 223, 227, 229, 233, 239, 241, 251, 257, 263, 269, 271,
          307, 401, 503, 601, 701, 809, 907, 1009, 1511, 2003]


def _lst(l):
    return "-" if not l else ",".join(str(int(x)) for x in l)


def _lists(ll):
    return "-" if not ll else ";".join(_lst(l) for l in ll)


def total_simulants(cfg):
    return cfg["pop"] + sum(sum(r) for r in cfg["births"][: max(cfg["nSteps"], 0)])


def block_size(cfg):
    return max(cfg["mapSize"], 10 * cfg["pop"])


def crn_safe(cfg):
    """with key columns the collision loop of the real IndexMap has no bound: only sizes with far more reachable
    positions than simulants are generated (salt shift = ncols * 111111 per round; see C03 / F11)"""
    if not cfg["keyCols"]:
        return True
    size = block_size(cfg)
    g = math.gcd(size, len(cfg["keyCols"]) * 111111)
    return size // g >= 2 * total_simulants(cfg) + 3


def init_line(cfg):
    from .. import wholekit as wk
    trans = [[x for (o, w) in sp["trans"] for x in [o] + list(w)] for sp in cfg["states"]]
    return " ".join(["init", wk.seed_string(cfg), str(cfg["pop"]), str(cfg["mapSize"]), str(cfg["start"]), str(cfg["step"]),
                     str(cfg["stop"]), _lst(cfg["keyCols"]), str(cfg["keyBits"]), str(int(cfg["keyFloat"])), str(cfg["sexW"]),
                     _lists(cfg["births"]), str(int(cfg["akPerPhase"])), _lst(cfg["order"]), _lst(cfg["birthPrio"]),
                     str(cfg["mortPhase"]), str(cfg["mortPrio"]), str(cfg["disPhase"]), str(cfg["disPrio"]),
                     _lists(cfg["mortP"]), _lists(cfg["initW"]), _lst([int(sp["selfOk"]) for sp in cfg["states"]]), _lists(trans)]
                    + ext_tokens(cfg))


def has_ext(cfg):
    ob = cfg.get("obs") or {}
    return bool(cfg.get("age") or cfg.get("pipe") or ob.get("strats") or ob.get("observations") or ob.get("defaults"))


def _strs(l):
    return "-" if not l else ",".join(str(x) for x in l)


def ext_tokens(cfg):
    """the opt-in parts of the configuration as `name=value` tokens (see lean/Driver/Whole.lean)"""
    t = []
    if cfg.get("age"):
        t.append(f"age={cfg['age']['bits']}")
    pipe = cfg.get("pipe")
    if pipe:
        mods = list(pipe.get("mods") or [])
        t += [f"pipe={int(pipe['mode'])},{pipe['den']}", "pkeys=" + _lst(pipe["keys"]), "pedges=" + _lst(pipe.get("edges") or []),
              "prows=" + _lists(pipe["rows"]),
              "mods=" + _lists([[m["kind"], m["den"], m["w"][0], m["w"][1]] for m in mods])]
    ob = cfg.get("obs") or {}
    if ob.get("defaults"):
        t.append("odef=" + _strs(ob["defaults"]))
    for sp in ob.get("strats", []):
        t.append(f"strat={sp['name']},{sp['kind']}/{_strs(sp['cats'])}/{_strs(sp['excl'])}/{_lst(sp.get('edges') or [])}")
    for o in ob.get("observations", []):
        t.append(f"obs={o['name']},{o['when']},{o['filter']},{o['agg']},{o['mod']}/{_strs(o['add'])}/{_strs(o['exc'])}")
    if cfg.get("dt"):
        t += [f"dt={cfg['dt']['std']}", "dmods=" + _lists([[-1 if x is None else x for x in m] for m in cfg["dt"]["mods"]])]
    return t


def show_clk(clk):
    if not clk:
        return None
    if clk[0] == "error":
        return "error:" + str(clk[1])
    return f"{clk[0]}/" + (",".join(f"{r[0]}:{r[1]}:{r[2]}" for r in clk[1:]) or "-")


def show_pvals(pv):
    if not pv:
        return "-"
    if pv and pv[0] == "error":
        return "error:" + str(pv[1])
    return ",".join(f"{r[0]}:{r[4]}/{r[5]}" for r in pv)


def show_results(cfg, res):
    ob = cfg.get("obs") or {}
    if res is None or not ob.get("observations") or 3 not in cfg["order"]:
        return "-"
    if "_error" in res:
        return "error:" + res["_error"]
    out = []
    for o in ob["observations"]:
        r = res.get(o["name"])
        if not isinstance(r, list):
            out.append(f"{o['name']}[{r}]")
            continue
        cells = []
        for row in r:
            num, den = row[-2], row[-1]
            v = str(num) if den == 1 else f"{num}/{den}"
            cells.append("|".join(row[:-2]) + "=" + v)
        out.append(f"{o['name']}[{','.join(cells)}]")
    return "+".join(out)


def show_table(tab):
    if not tab:
        return "-"
    return ";".join(",".join("n" if x is None else str(x) for x in row) for row in tab)


def show_pos(pos):
    if pos is None:
        return None
    return "-" if not pos else ",".join("x" if p is None else str(p) for p in pos)


BASE = dict(seed=3, addSeed=None, pop=5, mapSize=101, start=0, step=1, stop=3, nSteps=3, keyCols=[0, 1], keyBits=30,
            keyFloat=False, sexW=8, births=[[0, 2, 0, 0], [1, 0, 0, 1], [0, 0, 3, 0]], akPerPhase=True, order=[0, 1, 2],
            birthPrio=[5, 5, 5, 5], mortPhase=1, mortPrio=5, disPhase=1, disPrio=5, mortP=[[2, 4, 8], [1, 3, 5]],
            initW=[[8, 4, 4], [16, 0, 0]],
            states=[{"selfOk": True, "trans": [[1, [4, 8]], [2, [2, 2]]]}, {"selfOk": True, "trans": [[2, [8, 8]]]},
                    {"selfOk": True, "trans": []}])


def variant(**kw):
    import copy
    c = copy.deepcopy(BASE)
    c.update(kw)
    return c


STATE_NAMES = ["s0", "s1", "s2", "s3"]
SEX_NAMES = ["m", "f"]


def full_table(keys, n_states, edges, value):
    """the complete data of a lookup table: one row per key combination and bin; value(cells, bin) -> numerator"""
    import itertools
    doms = [range(2) if k == 0 else range(n_states) for k in keys]
    bins = range(len(edges) - 1) if edges else [None]
    rows = []
    for cells in itertools.product(*doms):
        for b in bins:
            rows.append(list(cells) + ([b] if b is not None else []) + [value(cells, b)])
    return rows


def sex_strat(name="sex", cats=("m", "f"), excl=()):
    return {"name": name, "kind": 0, "cats": list(cats), "excl": list(excl), "edges": []}


def state_strat(n, name="state", excl=(), cats=None):
    return {"name": name, "kind": 1, "cats": list(cats) if cats is not None else STATE_NAMES[:n], "excl": list(excl), "edges": []}


def combo_strat(n, name="combo", excl=()):
    return {"name": name, "kind": 2, "cats": [a + "_" + b for a in SEX_NAMES for b in STATE_NAMES[:n]], "excl": list(excl), "edges": []}


def alive_strat(name="alive", excl=()):
    return {"name": name, "kind": 3, "cats": ["yes", "no"], "excl": list(excl), "edges": []}


def age_strat(edges, name="agebin", excl=()):
    return {"name": name, "kind": 4, "cats": [f"a{i}" for i in range(len(edges) - 1)], "excl": list(excl), "edges": list(edges)}


def observation(name, when=3, flt=1, agg=0, add=(), exc=(), mod=1):
    return {"name": name, "when": when, "filter": flt, "agg": agg, "add": list(add), "exc": list(exc), "mod": mod}


MODS3 = [{"kind": 0, "den": 4, "w": [2, 3]}, {"kind": 1, "den": 16, "w": [1, 0]}, {"kind": 2, "den": 16, "w": [4, 12]}]
PMODS3 = [{"kind": 0, "den": 4, "w": [2, 3]}, {"kind": 0, "den": 16, "w": [1, 0]}, {"kind": 0, "den": 16, "w": [4, 16]}]


def ext_boundary():
    """hand-written cases for the opt-in parts: value pipeline + lookup table, observer / stratified results"""
    b = []
    tab2 = full_table([0, 1], 3, None, lambda c, _: (c[0] * 5 + c[1] * 3 + 2) % 17)
    tab3 = full_table([0, 1], 3, [0, 3, 6, 8], lambda c, bn: (c[0] * 5 + c[1] * 3 + bn * 2) % 17)
    # the same mortality table as `mortP`, read through a categorical lookup table and an unmodified pipeline
    b.append(variant(pipe={"mode": 0, "src": 0, "den": 16, "keys": [0, 1], "edges": None, "mods": MODS3,
                           "rows": full_table([0, 1], 3, None, lambda c, _: BASE["mortP"][c[0]][c[1]])}))
    # three non-commuting modifiers in registration order; the order of the components decides
    b.append(variant(order=[4, 0, 1, 5, 2, 6], pipe={"mode": 0, "src": 1, "den": 16, "keys": [0, 1], "edges": None, "rows": tab2, "mods": MODS3}))
    b.append(variant(order=[6, 5, 4, 0, 1, 2], pipe={"mode": 0, "src": 0, "den": 16, "keys": [0, 1], "edges": None, "rows": tab2, "mods": MODS3}))
    b.append(variant(order=[0, 1, 2, 5, 4], pipe={"mode": 0, "src": 0, "den": 16, "keys": [1, 0], "edges": None,
                                                  "rows": full_table([1, 0], 3, None, lambda c, _: (c[0] * 3 + c[1] * 5 + 2) % 17), "mods": MODS3}))
    # interpolated table: parameter column age, bins inside / below / above the data (extrapolation)
    b.append(variant(age={"bits": 3}, order=[0, 1, 2, 4], pipe={"mode": 0, "src": 0, "den": 16, "keys": [0, 1], "edges": [0, 3, 6, 8], "rows": tab3, "mods": MODS3}))
    b.append(variant(age={"bits": 4}, pop=9, mapSize=131, pipe={"mode": 0, "src": 1, "den": 8, "keys": [0], "edges": [3, 5, 11],
                                                                 "rows": full_table([0], 3, [3, 5, 11], lambda c, bn: [1, 8, 0, 5][c[0] * 2 + bn]), "mods": MODS3}))
    b.append(variant(age={"bits": 3}, pipe={"mode": 0, "src": 0, "den": 4, "keys": [], "edges": [0, 2, 4, 8],
                                            "rows": full_table([], 3, [0, 2, 4, 8], lambda c, bn: [0, 4, 2][bn]), "mods": MODS3}))
    # union: list combiner + union_post_processor
    b.append(variant(order=[5, 0, 1, 2, 4], pipe={"mode": 1, "src": 0, "den": 16, "keys": [0, 1], "edges": None, "rows": tab2, "mods": PMODS3}))
    b.append(variant(order=[0, 1, 2], pipe={"mode": 1, "src": 0, "den": 16, "keys": [1], "edges": None,
                                            "rows": full_table([1], 3, None, lambda c, _: [0, 16, 8][c[0]]), "mods": PMODS3}))   # one value: returned as is
    # a key combination without data: KeyError (interpolated) / ValueError (categorical) when somebody has it
    b.append(variant(pipe={"mode": 0, "src": 0, "den": 16, "keys": [0, 1], "edges": None, "rows": [r for r in tab2 if r[:2] != [1, 1]], "mods": MODS3}))
    b.append(variant(age={"bits": 3}, pipe={"mode": 0, "src": 0, "den": 16, "keys": [0, 1], "edges": [0, 3, 6, 8],
                                            "rows": [r for r in tab3 if r[:2] != [1, 0]], "mods": MODS3}))
    # the same tracked simulants are asked in consecutive steps (no births, nobody leaves at first) while the machine moves
    # everybody s0 -> s1 in between: the table must be read with the CURRENT state (categorical, then interpolated)
    moving = [{"selfOk": False, "trans": [[1, [16, 16]]]}, {"selfOk": True, "trans": []}, {"selfOk": True, "trans": []}]
    b.append(variant(pop=4, births=[], mortPhase=1, mortPrio=2, disPhase=1, disPrio=7, initW=[[16, 0, 0], [16, 0, 0]], states=moving,
                     pipe={"mode": 0, "src": 0, "den": 16, "keys": [1], "edges": None, "rows": [[0, 0], [1, 16], [2, 8]], "mods": MODS3}))
    b.append(variant(pop=4, births=[], mortPhase=0, disPhase=2, initW=[[16, 0, 0], [16, 0, 0]], states=moving, age={"bits": 2},
                     pipe={"mode": 1, "src": 1, "den": 16, "keys": [1, 0], "edges": [0, 2, 4],
                           "rows": full_table([1, 0], 3, [0, 2, 4], lambda c, bn: [0, 16, 8][c[0]]), "mods": PMODS3}))
    # refused at setup: a bin missing for one key group
    b.append(variant(age={"bits": 3}, pipe={"mode": 0, "src": 0, "den": 16, "keys": [0, 1], "edges": [0, 3, 6, 8],
                                            "rows": [r for r in tab3 if r[:3] != [0, 1, 1]], "mods": MODS3}))
    # observer: count by sex and state after the mortality listener (collect_metrics), everyone at time_step__prepare
    b.append(variant(order=[0, 3, 1, 2], obs={"defaults": [], "strats": [sex_strat(), state_strat(3)],
                                              "observations": [observation("alive_count", 3, 1, 0, ["sex", "state"]), observation("everyone", 0, 0, 0)]}))
    # the results manager's listener (priority 5, registered first) against the mortality listener in the same channel
    for mp in (2, 5, 8):
        b.append(variant(order=[3, 0, 1, 2], mortPhase=1, mortPrio=mp, mortP=[[8, 8, 8], [8, 8, 8]],
                         obs={"defaults": ["alive"], "strats": [alive_strat(), sex_strat("zsex", ("f", "m"))],
                              "observations": [observation("t", 1, 1, 0, ["zsex"]), observation("u", 1, 4, 1)]}))
    # births in the observed channel are not in the event index; excluded category; to_observe every 2nd step; sums
    b.append(variant(order=[0, 1, 2, 3], birthPrio=[0, 0, 0, 0], age={"bits": 3},
                     obs={"defaults": ["state"], "strats": [state_strat(3, excl=["s2"]), age_strat([0, 4, 8]), combo_strat(3)],
                          "observations": [observation("a", 1, 0, 2, ["agebin"]), observation("b", 2, 2, 1, ["combo"], ["state"], 2),
                                           observation("c", 3, 3, 0, [], [], 1)]}))
    # a mapper output outside the categories: ValueError as soon as somebody is in the missing state / age outside the bins
    b.append(variant(order=[0, 1, 2, 3], obs={"defaults": [], "strats": [state_strat(3, cats=["s0", "s1"])], "observations": [observation("x", 3, 0, 0, ["state"])]}))
    b.append(variant(order=[0, 1, 2, 3], age={"bits": 3}, obs={"defaults": [], "strats": [age_strat([0, 2, 5])], "observations": [observation("x", 0, 0, 0, ["agebin"])]}))
    # refused at setup: duplicate stratification name; observation stratified by an unregistered stratification
    b.append(variant(order=[0, 1, 2, 3], obs={"defaults": [], "strats": [sex_strat(), sex_strat()], "observations": []}))
    b.append(variant(order=[0, 1, 2, 3], obs={"defaults": [], "strats": [sex_strat()], "observations": [observation("x", 3, 0, 0, ["nope"])]}))
    # configured but the observer component is not part of the simulation
    b.append(variant(order=[0, 1, 2], obs={"defaults": [], "strats": [sex_strat()], "observations": [observation("x", 3, 0, 0, ["sex"])]}))
    # DateTimeClock in hours with per-simulant step modifiers: the events carry only the due simulants
    dsched = [[0, 1, 0, 0], [0, 0, 0, 0], [1, 0, 0, 0], [0, 0, 0, 1], [0, 0, 0, 0], [0, 0, 1, 0]] + [[0, 0, 0, 0]] * 6
    b.append(variant(start=96, step=6, stop=168, nSteps=64, order=[0, 1, 2, 7], births=dsched, dt={"std": 12, "mods": [[6, 18, None], [None, 30, 12]]}))
    b.append(variant(start=96, step=6, stop=144, nSteps=64, order=[7, 2, 1, 0], births=dsched, keyCols=[1], dt={"std": 0, "mods": [[None, None, None]]}))     # nobody is asked anything: the minimum step
    b.append(variant(start=120, step=12, stop=216, nSteps=64, order=[0, 7, 1, 2], births=[[0, 0, 1, 0]] * 3, keyCols=[],
                     dt={"std": 30, "mods": [[36, 36, 36]]}))                                                        # everybody steps 36 h: the global step grows
    b.append(variant(start=96, step=24, stop=240, nSteps=64, order=[0, 1, 2, 7], births=[[1, 0, 0, 0]] * 6, mortPhase=3, disPhase=2,
                     dt={"std": 24, "mods": [[24, 48, 72], [60, 12, 0]]}))                                           # below the minimum / zero requests, non-multiples
    b.append(variant(start=96, step=3, stop=120, nSteps=64, order=[0, 1, 2, 7], births=[[0, 2, 0, 0]] + [[0, 0, 0, 0]] * 7, pop=6,
                     mortP=[[8, 8, 8], [8, 8, 8]], dt={"std": 6, "mods": [[3, 9, 15]]}))                             # untracked simulants keep their clocks
    b.append(variant(start=96, step=6, stop=144, nSteps=64, order=[4, 0, 1, 5, 2, 7], births=dsched, age={"bits": 3},
                     pipe={"mode": 0, "src": 0, "den": 16, "keys": [0, 1], "edges": [0, 3, 6, 8], "rows": tab3, "mods": MODS3},
                     dt={"std": 12, "mods": [[12, 6, 18]]}))                                                         # with the value pipeline
    # everything together
    b.append(variant(order=[5, 0, 3, 1, 4, 2, 6], age={"bits": 3}, pop=8, mapSize=127,
                     pipe={"mode": 0, "src": 0, "den": 16, "keys": [1, 0], "edges": [1, 4, 7],
                           "rows": full_table([1, 0], 3, [1, 4, 7], lambda c, bn: (c[0] * 7 + c[1] * 4 + bn * 5) % 17), "mods": MODS3},
                     obs={"defaults": ["sex"], "strats": [sex_strat(), state_strat(3), alive_strat()],
                          "observations": [observation("n", 3, 1, 0, ["state"]), observation("gone", 2, 4, 2, ["alive"], ["sex"])]}))
    return b


class Whole(Prop):
    id = "WHOLE"
    lean_modules = ["VivModel.Props.Whole", "VivModel.Props.WholeDt"]
    build_targets = ["VivModel.Model.Whole", "VivModel.Model.WholeDt", "VivModel.Model.Proto"]
    driver = "Whole"
    technique = ("Lean 4 executable end-to-end model composed from the sub-models (SHA-1, MT19937, index map, streams, "
                 "state machine, events, clock) + theorems about the composition (run = iterated step, resume at any "
                 "boundary, fresh labels, untracked rows frozen, draws in range, initial CRN attributes in closed form; the mortality "
                 "probability = post(modifiers in registration order(source(own lookup row))) by composing the C14 and C15 models; "
                 "stratified results of a whole run = sum over its observation events, each adding the aggregate over the simulants "
                 "eligible at that moment, by composing the C16 model) + exact cell-by-cell correspondence (state table, index-map "
                 "positions, pipeline value per asked simulant, results) with real SimulationContext runs after every step")
    partial = ("the model covers the probe components of vcheck/wholekit.py (every value exact in binary64) under a SimpleClock and, "
               "opt-in, under a DateTimeClock in whole hours of January 2021 with per-simulant step modifiers (Model/WholeDt.lean, "
               "composing the C10 clock model; no observer there); move_simulants_to_end and rescale_post_processor are tied by "
               "C10/C14, not here; one pipeline (the mortality probability, source = one lookup table) and adding observations only; "
               "termination of the index map's collision loop is a hypothesis (fuel), sizes with few reachable positions are not generated")
    trusted_extra = ["vcheck/wholekit.py: every float the probe components compute is exact (powers of two, sixteenths, integers)"]
    n_quick = 56
    n_thorough = 900
    workers = 8
    case_timeout = 90
    rule = ("case = one configuration (seed, population 0-12, map size, clock, key columns, births per step and channel, "
            "priorities, component order, mortality table, machine; opt-in: age column, lookup table + value pipeline with 0-3 "
            "modifiers, observer with stratifications and observations, DateTimeClock with per-simulant step modifiers); run for real step by step, through run(), and with another "
            "births schedule; non-trivial = at least one completed step with simulants, or a refusal that the model predicts")

    # ------------------------------------------------------------------ generation
    def boundary(self):
        b = []
        b.append(variant())                                                             # the documented example
        b.append(variant(pop=0, births=[[0, 0, 0, 0], [0, 1, 0, 0], [2, 0, 0, 1]]))      # empty initial population, later births
        b.append(variant(pop=0, births=[], nSteps=2, stop=2))                          # nobody, ever
        b.append(variant(nSteps=0, stop=0, births=[]))                                 # no step at all
        b.append(variant(keyCols=[], mapSize=7, pop=1, births=[[3, 3, 3, 3]] * 3))      # no CRN: label outside the block -> IndexError
        b.append(variant(keyCols=[], mapSize=2, pop=0, births=[[3, 0, 0, 0]], nSteps=1, stop=1))   # positional draws longer than the block
        b.append(variant(keyCols=[0], pop=1, births=[[0, 1, 0, 0], [0, 1, 0, 0], [0, 2, 0, 0]]))   # entrance alone: unique until two are born together
        b.append(variant(keyCols=[0], pop=3))                                          # entrance alone: duplicate keys at the initial creation
        b.append(variant(akPerPhase=False, births=[[1, 1, 0, 0]] * 3))                 # two creation sites at one clock time: identical keys
        b.append(variant(keyBits=2, keyCols=[1], pop=8, mapSize=211))                  # 2-bit keys: duplicates by pigeonhole
        b.append(variant(keyFloat=True, keyBits=20, keyCols=[1, 0], mapSize=59))        # float key column (_shift), reversed key order
        b.append(variant(keyBits=53, keyCols=[1], mapSize=67))                          # _spread overflows int64
        b.append(variant(mapSize=23, pop=6, births=[[0, 1, 0, 0]] * 3))                # block-size rule: 10 * pop > map_size
        b.append(variant(start=-3, step=2, stop=2, nSteps=3, mapSize=47))              # negative times in seed strings and salts
        b.append(variant(step=3, start=5, stop=12, nSteps=3))                          # end not a multiple of the step
        b.append(variant(mortPhase=1, mortPrio=2, disPhase=1, disPrio=7, mortP=[[8, 8, 8], [8, 8, 8]]))   # mortality before disease
        b.append(variant(mortPhase=1, mortPrio=7, disPhase=1, disPrio=2, mortP=[[8, 0, 16], [0, 8, 16]]))  # disease before mortality
        b.append(variant(order=[2, 1, 0], mortP=[[8, 0, 16], [0, 8, 16]]))              # registration order decides inside one priority
        b.append(variant(mortPhase=3, disPhase=0, birthPrio=[0, 9, 0, 9]))
        b.append(variant(sexW=0))
        b.append(variant(sexW=16, mortP=[[16, 16, 16], [0, 0, 0]]))                     # everybody male, everybody leaves
        b.append(variant(states=[{"selfOk": False, "trans": [[1, [8, 8]], [2, [8, 0]]]}, {"selfOk": False, "trans": [[0, [16, 16]]]},
                                 {"selfOk": True, "trans": [[0, [16, 4]]]}]))           # no null transition; probability-1 transitions
        b.append(variant(states=[{"selfOk": True, "trans": [[1, [12, 8]], [2, [8, 2]]]}, {"selfOk": True, "trans": []},
                                 {"selfOk": True, "trans": []}]))                        # weights above 1 with a null transition: refused
        b.append(variant(states=[{"selfOk": False, "trans": [[1, [0, 8]]]}, {"selfOk": True, "trans": []}],
                         initW=[[16, 0], [8, 8]], mortP=[[0, 0], [0, 0]]))              # no valid transition for one sex
        b.append(variant(addSeed=7, seed=12))
        b.append(variant(addSeed="x9", seed=0, mapSize=1009))
        b += ext_boundary()
        return b

    def generate(self, rng: random.Random, i: int, tier: str):
        thorough = tier == "thorough"
        for _ in range(200):
            cfg = self._gen(rng, thorough)
            if crn_safe(cfg):
                return cfg
        return variant()

    def _gen(self, rng, thorough):
        pop = rng.choice([0, 1, 1, 2, 3, 4, 5, 6, 7, 8, 9, 10, 11, 12])
        n_steps = rng.choice([0, 1, 2, 2, 3, 3, 4, 4, 5, 6] if thorough else [0, 1, 1, 2, 2, 2, 3, 3, 4, 5, 6])
        step = rng.choice([1, 1, 1, 2, 3])
        start = rng.choice([0, 0, 0, 1, 3, 7, 100, -3, -1])
        slack = rng.randrange(step) if n_steps else rng.choice([0, 1])
        stop = start + step * n_steps - slack
        key_cols = rng.choice([[], [], [1], [1], [0, 1], [0, 1], [0, 1], [0, 1], [1, 0], [1, 0], [1, 0], [0] if pop <= 1 or rng.random() < 0.2 else [0, 1]])
        key_float = rng.random() < 0.3
        key_bits = rng.choice([20, 20, 20, 16, 10, 3] if key_float else [30, 30, 30, 30, 53, 50, 20, 20, 8, 4, 2])
        n_sched = max(0, n_steps + rng.choice([0, 0, 0, -1, 1]))
        dens = rng.choice([0.15, 0.3, 0.5])
        births = [[(rng.randint(1, 3) if rng.random() < dens else 0) for _ in range(4)] for _ in range(n_sched)]
        cfg = dict(seed=rng.choice([0, 1, 2, 7, 42, rng.randrange(10 ** 6), rng.randrange(2 ** 31)]),
                   addSeed=rng.choice([None, None, None, rng.randrange(100), rng.choice(["a", "x9", "s_1"])]),
                   pop=pop, mapSize=1, start=start, step=step, stop=stop, nSteps=n_steps, keyCols=key_cols, keyBits=key_bits,
                   keyFloat=key_float, sexW=rng.choice([0, 16, 8, 8, 4, 12, rng.randint(1, 15)]), births=births,
                   akPerPhase=rng.random() < 0.85, order=rng.sample([0, 1, 2], 3),
                   birthPrio=[5, 5, 5, 5] if rng.random() < 0.4 else [rng.randrange(10) for _ in range(4)],
                   mortPhase=rng.choice([1, 1, 1, 0, 2, 3]), mortPrio=rng.choice([5, 5, rng.randrange(10)]),
                   disPhase=rng.choice([1, 1, 1, 0, 2, 3]), disPrio=rng.choice([5, 5, rng.randrange(10)]))
        ns = rng.choice([2, 3, 3, 4])
        cfg["mortP"] = [[rng.choice([0, 0, 1, 2, 4, 8, 16, rng.randint(0, 16)]) for _ in range(ns)] for _ in range(2)]
        cfg["initW"] = [self._split(rng, 16, ns) for _ in range(2)]
        states = []
        for j in range(ns):
            self_ok = rng.random() < 0.7
            others = [k for k in range(ns) if k != j]
            nt = rng.choice([0, 1, 1, 2, 2]) if others else 0
            outs = rng.sample(others, min(nt, len(others)))
            if rng.random() < 0.1 and outs:
                outs.append(j)                                              # a declared loop transition
            ws = [self._weights(rng, self_ok, len(outs)) for _ in range(2)]  # one weight row per sex
            states.append({"selfOk": self_ok, "trans": [[o, [ws[0][k], ws[1][k]]] for k, o in enumerate(outs)]})
        cfg["states"] = states
        # map size: small primes (collisions do occur), sometimes below 10 * pop (block-size rule), sometimes large
        total = total_simulants(cfg)
        if not key_cols:
            cfg["mapSize"] = rng.choice([max(1, total - 1), total + 1, 10 * pop + 1, 50, 97, 1, 3]) if rng.random() < 0.5 else rng.choice(PRIMES)
        else:
            lo = 2 * total + 3
            cands = [p for p in PRIMES if lo <= p <= max(6 * total, 60)] or [p for p in PRIMES if p >= lo][:3]
            r = rng.random()
            if r < 0.2 and pop:
                cfg["mapSize"] = rng.choice([1, 7, 10 * pop - 1, 10 * pop])     # the block is 10 * pop
            elif r < 0.3:
                cfg["mapSize"] = rng.choice([1009, 1511, 2003] if thorough else [503, 1009, 2003])
            else:
                cfg["mapSize"] = rng.choice(cands)
        self._gen_ext(rng, cfg, thorough)
        if rng.random() < 0.15:
            self._gen_dt(rng, cfg, thorough)
        return cfg

    def _gen_dt(self, rng, cfg, thorough):
        """turn the case into a DateTimeClock run with per-simulant step modifiers (hours of January 2021)"""
        ns = len(cfg["states"])
        step = rng.choice([3, 6, 6, 12, 24])
        days = rng.choice([1, 1, 2, 2, 3]) if step <= 6 else rng.choice([2, 3, 4, 6])
        start = rng.choice([96, 120, 144])
        n_sched = (24 * days) // step
        dens = rng.choice([0.05, 0.15, 0.3])
        pool = [step, step, 2 * step, 3 * step, step // 2 or 1, 2 * step + step // 2, 5 * step, 0, None, None]
        mods = [[rng.choice(pool) for _ in range(ns)] for _ in range(rng.choice([1, 1, 2]))]
        cfg.update(start=start, step=step, stop=start + 24 * days, nSteps=64, pop=min(cfg["pop"], 8),
                   births=[[(rng.randint(1, 2) if rng.random() < dens else 0) for _ in range(4)] for _ in range(max(0, n_sched + rng.choice([0, 0, -2, 1])))],
                   dt={"std": rng.choice([0, 0, step, 2 * step, step + step // 2 or 1, 4 * step]), "mods": mods})
        cfg["obs"] = None
        cfg["order"] = [c for c in cfg["order"] if c != 3]
        cfg["order"].insert(rng.randrange(len(cfg["order"]) + 1), 7)
        if cfg["keyCols"]:
            total = total_simulants(cfg)
            lo = 2 * total + 3
            cands = [p for p in PRIMES if lo <= p <= max(6 * total, 60)] or [p for p in PRIMES if p >= lo][:3]
            cfg["mapSize"] = rng.choice(cands)

    def _gen_ext(self, rng, cfg, thorough):
        """the opt-in parts (about 60 % of the cases use at least one): age column, lookup table + value pipeline,
        observer. All random choices come AFTER the base configuration's, so the base stream is unchanged."""
        r = rng.random()
        if r < 0.4:
            return
        ns = len(cfg["states"])
        use_age = rng.random() < 0.5
        use_pipe = rng.random() < 0.6
        use_obs = rng.random() < 0.65
        if not (use_pipe or use_obs):
            use_obs = True
        if use_age:
            cfg["age"] = {"bits": rng.choice([2, 3, 3, 4])}
        order = list(cfg["order"])
        if use_pipe:
            union = rng.random() < 0.35
            den = rng.choice([16, 16, 16, 8, 4, 64])
            edges = None
            if use_age and rng.random() < 0.6:
                top = 2 ** cfg["age"]["bits"]
                k = rng.choice([1, 2, 2, 3])
                cuts = sorted(rng.sample(range(0, top + 2), k + 1))
                if rng.random() < 0.5:
                    cuts[0], cuts[-1] = 0, max(top, cuts[-2] + 1)             # the bins cover every age
                edges = cuts
            keys = rng.choice([[0, 1], [0, 1], [1, 0], [0], [1]] + ([[]] if edges else []))
            vals = [0, den, den // 2, den // 4] + [rng.randint(0, den) for _ in range(3)]
            rows = full_table(keys, ns, edges, lambda c, bn: rng.choice(vals) if union else rng.choice(vals + [den + den // 2]))
            rng.shuffle(rows)
            if rng.random() < 0.08 and len(rows) > 1:
                rows.pop(rng.randrange(len(rows)))                           # a hole: refused at setup or when somebody needs it
            mods = []
            for _ in range(3):
                md = rng.choice([1, 2, 4, 4, 8, 16])
                kind = rng.choice([0, 0, 1, 2])
                hi = md if union else (2 * md if kind == 0 else md)
                mods.append({"kind": kind, "den": md, "w": [rng.randint(0, hi), rng.randint(0, hi)]})
            cfg["pipe"] = {"mode": int(union), "src": rng.choice([0, 1]), "den": den, "keys": keys, "edges": edges, "rows": rows, "mods": mods}
            for c in (4, 5, 6):
                if rng.random() < 0.6:
                    order.insert(rng.randrange(len(order) + 1), c)
        if use_obs:
            pool = [0, 1, 2, 3] + ([4] if use_age else [])
            kinds = rng.sample(pool, rng.choice([1, 2, 2, 3]) if len(pool) >= 3 else 1)
            strats = []
            for k in kinds:
                if k == 0:
                    sp = sex_strat(rng.choice(["sex", "zsex"]), rng.choice([("m", "f"), ("f", "m")]))
                elif k == 1:
                    cats = STATE_NAMES[:ns]
                    rng.shuffle(cats)
                    if rng.random() < 0.08 and len(cats) > 1:
                        cats = cats[:-1]                                     # somebody may map outside the categories
                    sp = state_strat(ns, rng.choice(["state", "astate"]), cats=cats)
                elif k == 2:
                    sp = combo_strat(ns)
                elif k == 3:
                    sp = alive_strat(rng.choice(["alive", "tracked_now"]))
                else:
                    top = 2 ** cfg["age"]["bits"]
                    nb = rng.choice([1, 2, 3])
                    inner = sorted(rng.sample(range(1, top), min(nb - 1, top - 1)))
                    edges = [0] + inner + [top if rng.random() < 0.85 else top - 1]   # top - 1: the oldest fall outside
                    edges = sorted(set(edges))
                    if len(edges) < 2:
                        edges = [0, top]
                    sp = age_strat(edges)
                if len(sp["cats"]) > 1 and rng.random() < 0.3:
                    sp["excl"] = [rng.choice(sp["cats"])]
                strats.append(sp)
            names = [sp["name"] for sp in strats]
            defaults = [rng.choice(names)] if rng.random() < 0.25 else []
            observations = []
            for j in range(rng.choice([1, 2, 2, 3] if thorough else [1, 2, 2])):
                add = [n for n in names if rng.random() < 0.5]
                exc = [rng.choice(defaults)] if defaults and rng.random() < 0.3 else []
                observations.append(observation(f"o{j}", rng.randrange(4), rng.choice([0, 1, 1, 2, 3, 4]),
                                                rng.choice([0, 0, 0, 1, 2] if use_age else [0, 0, 1]), add, exc, rng.choice([1, 1, 1, 2])))
            r2 = rng.random()
            if r2 < 0.03:
                strats.append(dict(strats[0]))                              # duplicate stratification name: refused at setup
            elif r2 < 0.06:
                observations[0]["add"] = observations[0]["add"] + ["nope"]   # unregistered stratification: refused at post_setup
            cfg["obs"] = {"defaults": defaults, "strats": strats, "observations": observations}
            if rng.random() < 0.95:
                order.insert(rng.randrange(len(order) + 1), 3)
        cfg["order"] = order

    @staticmethod
    def _split(rng, total, n):
        cuts = sorted(rng.randint(0, total) for _ in range(n - 1))
        parts = [b - a for a, b in zip([0] + cuts, cuts + [total])]
        rng.shuffle(parts)
        return parts

    def _weights(self, rng, self_ok, n):
        """one weight row (sixteenths) on which every division the framework performs is exact"""
        if n == 0:
            return []
        r = rng.random()
        if r < 0.03:                                    # refused: two probability-1 transitions / nothing valid / above 1
            return [16] * n if n > 1 else ([0] if not self_ok else [16])
        if r < 0.16:                                    # a probability-1 transition, the others 0
            row = [0] * n
            row[rng.randrange(n)] = 16
            return row
        if self_ok:
            if r < 0.18:
                return [rng.randint(9, 15) for _ in range(n)]     # may exceed 1 (n > 1): refused
            return self._split(rng, rng.choice([16, 12, 8, 5, 3, 0]), n + 1)[:n]
        return self._split(rng, rng.choice([16, 8, 4, 2, 1]), n)

    # ------------------------------------------------------------------ implementation
    def run_impl(self, cfg):
        from .. import wholekit as wk
        obs = wk.run(cfg, "step")
        obs2 = wk.run(cfg, "run")
        obs["run_final"] = obs2["steps"][-1] if obs2["steps"] else None
        obs["run_clock"] = obs2["clocks"][-1] if obs2["clocks"] else None
        obs["run_error"] = obs2["error"]
        obs["run_positions"] = obs2["positions"]
        obs["run_results"] = obs2["results"][-1] if obs2.get("results") else None
        obs["run_pvals"] = obs2["pvals"][-1] if obs2.get("pvals") else None
        obs["run_clk"] = obs2["clk"][-1] if obs2.get("clk") else None
        # another scenario: different births, mortality, machine parameters -> the initial CRN attributes must not move
        import copy
        other = copy.deepcopy(cfg)
        other["births"] = [[(x + 1) % 3 for x in r] for r in cfg["births"]] + [[1, 0, 2, 0]]
        other["mortP"] = [[(x * 7 + 3) % 17 for x in r] for r in cfg["mortP"]]
        other["order"] = list(reversed(cfg["order"]))
        obs3 = wk.run(other, "init")
        obs["other_init"] = obs3["init"]
        obs["other_error"] = obs3["error"]
        return obs

    # ------------------------------------------------------------------ model
    def model_lines(self, cfg, obs):
        n_done = len(obs["steps"])
        n = n_done + (1 if obs["error"] and isinstance(obs["error"]["at"], int) else 0)
        if obs["init"] is None:
            n = 0
        return [init_line(cfg)] + ["step"] * n + ["run 64"]

    def compare(self, cfg, obs, replies):
        out = []
        stages = [("init", obs["init"], obs["positions_by_stage"][0] if obs.get("positions_by_stage") else None)]
        for k, t in enumerate(obs["steps"]):
            stages.append((k, t, obs["positions_by_stage"][k + 1] if obs.get("positions_by_stage") and len(obs["positions_by_stage"]) > k + 1 else None))
        err = obs["error"]
        if err and err["at"] == "setup":
            return [] if replies[0] == "bad-config" else [f"setup refused by the implementation ({err['msg']}), model: {replies[0][:80]}"]
        if replies[0] == "bad-config":
            return ["model refuses the configuration, implementation ran"]
        clocks = obs["clocks"]
        ext = has_ext(cfg)

        dtm = bool(cfg.get("dt"))

        def diff(got, tab, clock, pos, res, pv, clk=None):
            """model reply vs implementation: `ok <clock> <rows> [<positions>] [<pipeline values> <results>] [<clocks>]`"""
            g = got.split(" ")
            want = ["ok", str(clock), show_table(tab)]
            have = g[:3]
            if pos is not None:
                want.append(show_pos(pos))
                have = g[:4]
            if ext:
                want += [show_pvals(pv), show_results(cfg, res)]
                have = have + g[4:6]
            if dtm:
                want.append(show_clk(clk))
                have = have + g[-1:]
            if len(g) != 4 + (2 if ext else 0) + (1 if dtm else 0) and g[0] == "ok":
                return " ".join(g), " ".join(str(x) for x in want)
            return (" ".join(have), " ".join(str(x) for x in want)) if have != want else None
        for i, (name, tab, pos) in enumerate(stages):
            if tab is None:
                break
            d = diff(replies[i], tab, clocks[i], pos, (obs.get("results") or [None] * (i + 1))[i], (obs.get("pvals") or [None] * (i + 1))[i],
                     (obs.get("clk") or [None] * (i + 1))[i] if dtm else None)
            if d:
                out.append(f"stage {name}: model `{d[0][:600]}` != implementation `{d[1][:600]}`")
                break
        if err and not out:
            i = 0 if err["at"] == "init" else (err["at"] + 1 if isinstance(err["at"], int) else None)
            if i is None:
                out.append(f"implementation raised at {err['at']}: {err['msg']}")
            elif replies[i] != f"err {err['class']}":
                out.append(f"stage {err['at']}: implementation raised {err['class']} ({err['msg'][:120]}), model `{replies[i][:200]}`")
        # run(): the model's while loop against the real run()
        last = replies[-1]
        if obs["run_error"]:
            if last != f"err {obs['run_error']['class']}":
                out.append(f"run(): implementation raised {obs['run_error']['class']}, model `{last[:200]}`")
        elif obs["run_final"] is not None:
            d = diff(last, obs["run_final"], obs["run_clock"], obs.get("run_positions"), obs.get("run_results"), obs.get("run_pvals"),
                     obs.get("run_clk"))
            if d:
                out.append(f"run(): model `{d[0][:600]}` != implementation `{d[1][:600]}`")
        return out

    # ------------------------------------------------------------------ oracle (independent of the model)
    def oracle(self, cfg, obs):
        f = []

        def fail(sig, msg):
            f.append({"sig": sig, "msg": msg})

        err = obs["error"]
        if err and str(err["class"]).startswith("other"):
            fail("unexpected-exception", f"{err}")
        if err and err["at"] in ("finalize",):
            fail("unexpected-exception", f"{err}")
        if obs["init"] is None:
            return f
        tabs = [obs["init"]] + obs["steps"]
        clocks = obs["clocks"]
        B = cfg["keyBits"]
        # clock: start, start + step, ...
        for k, c in enumerate(clocks):
            if cfg.get("dt"):
                break                                   # per-simulant clocks: see `_oracle_dt`
            if c != cfg["start"] + k * cfg["step"]:
                fail("clock", f"clock after stage {k} is {c}, expected {cfg['start'] + k * cfg['step']}")
                break
        prev = []
        for k, tab in enumerate(tabs):
            labels = [r[0] for r in tab]
            if labels != list(range(len(tab))):
                fail("labels-not-fresh", f"stage {k}: labels {labels}")
                break
            if len(tab) < len(prev):
                fail("rows-removed", f"stage {k}: {len(prev)} -> {len(tab)} rows")
                break
            for old, new in zip(prev, tab):
                if old[2:5] != new[2:5]:
                    fail("creation-attribute-changed", f"stage {k}: simulant {old[0]} key/entrance/sex {old[2:5]} -> {new[2:5]}")
                if old[1] == 0 and new != old:
                    fail("untracked-changed", f"stage {k}: untracked simulant {old} -> {new}")
                if old[1] == 1 and new[1] == 0 and new[6] != clocks[k]:
                    fail("exit-time", f"stage {k}: simulant {new[0]} untracked during the step ending at {clocks[k]} has exit {new[6]}")
            for r in tab:
                if any(x is None for x in r[:6]) or any(isinstance(x, list) for x in r):
                    fail("cell-not-exact", f"stage {k}: row {r}")
                    continue
                if (r[1] == 1) != (r[6] is None):
                    fail("exit-iff-untracked", f"stage {k}: row {r}")
                if not 0 <= r[2] < 2 ** B:
                    fail("key-out-of-range", f"stage {k}: row {r}")
                if r[5] >= len(cfg["states"]):
                    fail("state-unknown", f"stage {k}: row {r}")
            # creation time: the fencepost for the initial population, the clock (not the event time) for births
            new_rows = tab[len(prev):]
            want_ent = cfg["start"] - cfg["step"] if k == 0 else clocks[k - 1]
            for r in new_rows:
                if r[3] != want_ent:
                    fail("creation-time", f"stage {k}: simulant {r[0]} has entrance {r[3]}, created at clock {want_ent}")
                if k > 0 and r[1] == 0 and r[6] != clocks[k]:
                    fail("exit-time", f"stage {k}: newborn {r}")
            sn = (k - 1) if not cfg.get("dt") or k == 0 else (clocks[k - 1] - cfg["start"]) // cfg["step"]
            want_n = cfg["pop"] if k == 0 else (sum(cfg["births"][sn]) if 0 <= sn < len(cfg["births"]) else 0)
            if len(new_rows) != want_n:
                fail("creation-count", f"stage {k}: {len(new_rows)} simulants created, schedule says {want_n}")
            prev = tab
        # index-map positions: distinct, inside the block; identity without key columns
        pbs = obs.get("positions_by_stage") or []
        size = obs.get("size")
        for k, pos in enumerate(pbs):
            if pos is None:
                continue
            if any(p is None for p in pos):
                fail("position-missing", f"stage {k}: {pos}")
            elif cfg["keyCols"]:
                if len(set(pos)) != len(pos) or any(not 0 <= p < size for p in pos):
                    fail("positions-not-injective-in-range", f"stage {k}: {pos} size {size}")
                if k and pbs[k - 1] is not None and pos[: len(pbs[k - 1])] != pbs[k - 1]:
                    fail("position-moved", f"stage {k}: {pbs[k - 1]} -> {pos}")
            elif pos != list(range(len(pos))):
                fail("positions-not-identity", f"stage {k}: {pos}")
        # C04 on the real map: a simulant sits at the first hash of its key (salt = the clock of its creation) unless a
        # simulant registered before it or with it holds that position
        fh = obs.get("first_hashes")
        if fh:
            holder = {p_: (lab_, t_) for lab_, p_, f_, t_ in fh}
            for lab_, p_, f_, t_ in fh:
                if p_ != f_:
                    h = holder.get(f_)
                    if h is None or h[1] > t_:
                        fail("position-not-first-hash", f"simulant {lab_} (created at {t_}) sits at {p_}, the first hash {f_} of its key "
                                                        f"is {'free' if h is None else 'held by the later simulant ' + str(h[0])}")
                        break
        # mortality called before the machine (channel, priority, registration order): whoever leaves during a step has
        # not been moved by the machine in that step
        mpos = (cfg["mortPhase"], cfg["mortPrio"], cfg["order"].index(1))
        dpos = (cfg["disPhase"], cfg["disPrio"], cfg["order"].index(2))
        if mpos < dpos:
            for k in range(1, len(tabs)):
                for old, new in zip(tabs[k - 1], tabs[k]):
                    if old[1] == 1 and new[1] == 0 and old[5] != new[5]:
                        fail("left-but-moved", f"stage {k}: simulant {new[0]} left during the step (mortality is called before the "
                                               f"machine) but its state changed {old[5]} -> {new[5]}")
        if size is not None and size != max(cfg["mapSize"], 10 * cfg["pop"]):
            fail("block-size", f"block size {size}, configured map_size {cfg['mapSize']}, population {cfg['pop']}")
        # run() = step() x n ; same configuration twice = same tables
        if err is None and obs["run_error"] is None and obs["steps"]:
            if obs["run_final"] != obs["steps"][-1] or obs["run_clock"] != clocks[-1]:
                fail("run-differs-from-steps", f"run(): clock {obs['run_clock']} table {show_table(obs['run_final'])[:300]}; "
                                               f"step by step: clock {clocks[-1]} table {show_table(obs['steps'][-1])[:300]}")
        if (err is None) != (obs["run_error"] is None) and not (err and err["at"] == "finalize"):
            fail("run-differs-from-steps", f"step by step: {err}; run(): {obs['run_error']}")
        # another scenario (births, mortality, order): same initial population
        if obs["other_init"] != obs["init"]:
            fail("initial-population-depends-on-scenario", f"{show_table(obs['init'])[:300]} vs {show_table(obs['other_init'])[:300]}")
        self._oracle_ext(cfg, obs, tabs, clocks, fail)
        if cfg.get("dt"):
            self._oracle_dt(cfg, obs, tabs, clocks, fail)
        if err is None and obs["run_error"] is None and obs["steps"] and has_ext(cfg):
            if obs.get("run_results") != (obs.get("results") or [None])[-1]:
                fail("run-differs-from-steps", f"results after run(): {show_results(cfg, obs.get('run_results'))[:300]}; step by step: "
                                               f"{show_results(cfg, (obs.get('results') or [None])[-1])[:300]}")
        return f

    # the opt-in parts, from the configuration and the observed tables alone (no Lean model involved)
    @staticmethod
    def expected_probability(cfg, sex, st, age):
        """post(modifiers in registration order(source(the table row of the simulant's own sex / state / age bin)))
        as an exact fraction; None when the table has no such row (the call is refused)"""
        from fractions import Fraction
        pipe = cfg["pipe"]
        edges = pipe.get("edges")
        cells = [sex if k == 0 else st for k in pipe["keys"]]
        bn = None
        if edges:
            bn = 0
            for i in range(len(edges) - 1):
                if age >= edges[i]:
                    bn = i                                     # below the first edge: first bin; at or above the last: last bin
        hit = [r for r in pipe["rows"] if r[:len(cells)] == cells and (bn is None or r[len(cells)] == bn)]
        if len(hit) != 1:
            return None
        v = Fraction(hit[0][-1], pipe["den"])
        mods = [pipe["mods"][c - 4] for c in cfg["order"] if 4 <= c <= 6]
        ws = [Fraction(m["w"][sex], m["den"]) for m in mods]
        if pipe["mode"] == 1:
            vals = [v] + ws
            if len(vals) == 1:
                return v
            prod = Fraction(1)
            for x in vals:
                prod *= 1 - x
            return 1 - prod
        for m, w in zip(mods, ws):
            v = v * w if m["kind"] == 0 else (v + w if m["kind"] == 1 else w)
        return v

    def _oracle_dt(self, cfg, obs, tabs, clocks, fail):
        """per-simulant clocks (C10's statements on the composed run): nobody is skipped, nobody is updated early"""
        clk = obs.get("clk") or []
        mn = cfg["step"]
        std = cfg["dt"]["std"] or mn
        for k in range(len(tabs)):
            if k >= len(clk) or not clk[k]:
                break
            if clk[k][0] == "error":
                fail("clock-unreadable", f"stage {k}: {clk[k]}")
                break
            now = clocks[k]
            sims = {r[0]: (r[1], r[2]) for r in clk[k][1:]}
            if sorted(sims) != [r[0] for r in tabs[k]]:
                fail("simulant-lost", f"stage {k}: clocks for {sorted(sims)}, table has {[r[0] for r in tabs[k]]}")
                break
            if sims and clk[k][0] != min(n for n, _ in sims.values()) - now:
                fail("event-time-not-earliest", f"stage {k}: global step {clk[k][0]}, earliest next-event time {min(n for n, _ in sims.values())}, clock {now}")
            if any(n <= now for n, _ in sims.values()):
                fail("next-event-time-passed", f"stage {k}: clock {now}, next-event times {sorted(n for n, _ in sims.values())}")
            if k == 0:
                continue
            prev = {r[0]: (r[1], r[2]) for r in clk[k - 1][1:]}
            if now != clocks[k - 1] + clk[k - 1][0]:
                fail("clock-not-advanced-to-event-time", f"stage {k}: clock {clocks[k - 1]} + global step {clk[k - 1][0]} != {now}")
            before = {r[0]: r for r in tabs[k - 1]}
            for r in tabs[k]:
                lab = r[0]
                nxt, stp = sims[lab]
                due = lab not in prev or prev[lab][0] <= now          # newborns get the event time as their next-event time
                if lab in prev and prev[lab][0] > now:
                    # not due during the step that ended at `now`: no listener saw the simulant, the clock left it alone
                    if before[lab] != r:
                        fail("updated-early", f"stage {k}: simulant {lab} was not due (next event {prev[lab][0]} > {now}) but its row changed "
                                              f"{before[lab]} -> {r}")
                    if (nxt, stp) != prev[lab]:
                        fail("stale-next-event-time", f"stage {k}: simulant {lab} not due, clock columns {prev[lab]} -> {(nxt, stp)}")
                if due:
                    asked = [m[r[5]] for m in cfg["dt"]["mods"] if m[r[5]] is not None]
                    req = min(asked) if asked else std
                    q = req // mn
                    want = (1 if q == 0 else q) * mn
                    if stp != want or nxt != now + want:
                        fail("step-size-rule", f"stage {k}: simulant {lab} (state {r[5]}) was due at {now}: step {stp}, next {nxt}; the modifiers ask "
                                               f"{asked or 'nothing'} (standard {std}, minimum {mn}) -> {want}")

    def _oracle_ext(self, cfg, obs, tabs, clocks, fail):
        from fractions import Fraction
        # ---- the value the mortality filter used: each simulant's own row, modifiers in registration order
        if cfg.get("pipe") and 1 in cfg["order"]:
            for k, pv in enumerate(obs.get("pvals") or []):
                if not pv or k == 0 or k >= len(tabs):
                    continue
                if pv[0] == "error":
                    fail("pipeline-log", f"stage {k}: {pv}")
                    continue
                if pv == (obs["pvals"][k - 1] if k else None):
                    continue                                   # nobody was asked during this step
                before = {r[0]: r for r in tabs[k - 1]}
                after = {r[0]: r for r in tabs[k]}
                for lab, sex, st, age, num, den in pv:
                    want = self.expected_probability(cfg, sex, st, age)
                    got = Fraction(num, den)
                    if want is not None and got != want:
                        fail("pipeline-value", f"stage {k}: simulant {lab} (sex {sex}, state {st}, age {age}) was filtered with probability {got}, "
                                               f"its own table row through the modifiers in registration order gives {want}")
                        break
                    if lab in before and before[lab][1] == 0:
                        fail("pipeline-asked-untracked", f"stage {k}: untracked simulant {lab} was handed to the pipeline")
                    r1 = after.get(lab)
                    if r1 is not None and got >= 1 and r1[1] == 1:
                        fail("filter-vs-probability", f"stage {k}: simulant {lab} had probability {got} and is still tracked")
                    if r1 is not None and got <= 0 and r1[1] == 0:
                        fail("filter-vs-probability", f"stage {k}: simulant {lab} had probability {got} and was untracked")
        # ---- stratified results
        ob = cfg.get("obs") or {}
        results = obs.get("results") or []
        if not ob.get("observations") or 3 not in cfg["order"] or not results:
            return
        by_name = {sp["name"]: sp for sp in ob["strats"]}
        from .. import wholekit as wk
        for o in ob["observations"]:
            names = wk.obs_strat_names(cfg, o)
            if any(n not in by_name for n in names):
                continue
            prev = None
            for k, res in enumerate(results[: len(tabs)]):
                if res is None:
                    break
                if "_error" in res:
                    fail("results-unreadable", f"stage {k}: {res['_error']}")
                    break
                cur = res.get(o["name"])
                if not isinstance(cur, list):
                    fail("results-shape", f"stage {k}: observation {o['name']}: {cur}")
                    break
                if any(row[-1] != 1 for row in cur):
                    fail("results-not-integer", f"stage {k}: observation {o['name']}: {cur}")
                    break
                tab = {tuple(row[:-2]): row[-2] for row in cur}
                if prev is None:
                    if any(tab.values()):
                        fail("results-not-zero-at-start", f"observation {o['name']}: {cur}")
                    prev = tab
                    continue
                inc = {key: tab[key] - prev[key] for key in tab}
                total = sum(inc.values())
                due = ((clocks[k] - cfg["start"]) // cfg["step"]) % o["mod"] == 0       # event.time of step k is the clock after it
                if not due and any(inc.values()):
                    fail("results-observed-when-not-due", f"stage {k}: observation {o['name']} (every {o['mod']} steps) grew by {inc}")
                sched = cfg["births"][k - 1] if k - 1 < len(cfg["births"]) else [0, 0, 0, 0]
                n_index = len(tabs[k - 1]) + sum(sched[: o["when"]])                    # the event index: rows before the event
                index_rows = tabs[k][:n_index]
                excluded = any(by_name[n]["excl"] for n in names)
                if o["agg"] == 0:
                    if any(v < 0 for v in inc.values()):
                        fail("results-decreased", f"stage {k}: observation {o['name']}: {inc}")
                    if total > n_index:
                        fail("results-count-exceeds-event", f"stage {k}: observation {o['name']} counted {total}, the event had {n_index} simulants")
                    if due and o["filter"] == 0 and not excluded and total != n_index:
                        fail("results-count-not-everyone", f"stage {k}: observation {o['name']} (no filter, no exclusions) counted {total}, "
                                                           f"the event had {n_index} simulants")
                    if due and o["filter"] == 0 and names and all(by_name[n]["kind"] == 0 for n in names):
                        # strata by sex only: sex never changes, so the increment of a stratum is known from the table
                        for key, v in inc.items():
                            want = sum(1 for r in index_rows if SEX_NAMES[r[4]] == key[0])
                            if v != want:
                                fail("results-stratum-wrong", f"stage {k}: observation {o['name']} stratum {key} grew by {v}, the event had {want} such simulants")
                    if due and o["filter"] == 1 and not excluded:
                        was = {r[0]: r[1] for r in tabs[k - 1]}
                        upper = sum(1 for r in index_rows if was.get(r[0], 1) == 1)
                        lower = sum(1 for r in index_rows if r[1] == 1)
                        if not lower <= total <= upper:
                            fail("results-tracked-bounds", f"stage {k}: observation {o['name']} (tracked == True) counted {total}; of the event's "
                                                           f"simulants {upper} were tracked before the step and {lower} after it")
                        # only the mortality listener untracks: called before the results manager's listener (earlier channel,
                        # or the same channel with a priority below the manager's default 5; the manager registers first)
                        # the count is the number still tracked after the step, otherwise the number tracked before it
                        if 1 in cfg["order"]:
                            mort_first = (cfg["mortPhase"], cfg["mortPrio"]) < (o["when"], 5)
                            want = lower if mort_first else upper
                            if total != want:
                                fail("results-order-vs-mortality", f"stage {k}: observation {o['name']} (tracked == True, channel {o['when']}) counted "
                                                                   f"{total}; the mortality listener (channel {cfg['mortPhase']}, priority {cfg['mortPrio']}) runs "
                                                                   f"{'before' if mort_first else 'after'} the results manager's, so {want} were tracked")
                if o["agg"] == 1 and due and o["filter"] == 0 and not excluded:
                    want = sum(r[3] for r in index_rows)
                    if total != want:
                        fail("results-sum-wrong", f"stage {k}: observation {o['name']} summed entrance to {total}, the event's simulants give {want}")
                prev = tab

    # ------------------------------------------------------------------ reporting
    def nontrivial(self, cfg, obs):
        if obs.get("error"):
            return obs["init"] is not None or obs["error"]["at"] == "init"
        return bool(obs["steps"]) and bool(obs["steps"][-1])

    def tags(self, cfg, obs):
        t = [f"pop:{'0' if cfg['pop'] == 0 else '1' if cfg['pop'] == 1 else '2-6' if cfg['pop'] <= 6 else '7-12'}",
             f"steps:{cfg['nSteps']}", f"keycols:{'+'.join(map(str, cfg['keyCols'])) or 'none'}",
             f"key:{'float' if cfg['keyFloat'] else 'int'}:{cfg['keyBits']}bits", f"states:{len(cfg['states'])}",
             "ak:per-site" if cfg["akPerPhase"] else "ak:shared", f"mort@{cfg['mortPhase']}", f"dis@{cfg['disPhase']}"]
        if 10 * cfg["pop"] > cfg["mapSize"]:
            t.append("block=10*pop")
        if cfg["mortPhase"] == cfg["disPhase"]:
            t.append("mort-before-dis" if (cfg["mortPrio"], cfg["order"].index(1)) < (cfg["disPrio"], cfg["order"].index(2)) else "dis-before-mort")
            if cfg["mortPrio"] == cfg["disPrio"]:
                t.append("same-priority:registration-order-decides")
        if cfg.get("addSeed") is not None:
            t.append("additional-seed")
        if cfg["start"] - cfg["step"] < 0:
            t.append("negative-time")
        err = obs.get("error")
        t.append(f"outcome:{'ok' if not err else 'raised:' + str(err['class']) + '@' + ('step' if isinstance(err['at'], int) else str(err['at']))}")
        if obs.get("steps"):
            last = obs["steps"][-1]
            births = len(last) - len(obs["init"] or [])
            t.append("births:" + ("0" if births == 0 else "1-3" if births <= 3 else "4+"))
            if any(r[1] == 0 for r in last):
                t.append("untracked:some")
            if any(r[5] != r0[5] for r, r0 in zip(last, obs["init"] or [])):
                t.append("machine-moved")
            for ph in range(4):
                if any(k < len(cfg["births"]) and cfg["births"][k][ph] for k in range(len(obs["steps"]))):
                    t.append(f"births@{ph}")
        t += self._tags_ext(cfg, obs)
        if cfg.get("dt"):
            clk = [c for c in (obs.get("clk") or []) if c and c[0] != "error"]
            t += ["clock:datetime", f"dt:modifiers:{len(cfg['dt']['mods'])}", f"dt:min-step:{cfg['step']}h",
                  "dt:std:" + ("none" if not cfg["dt"]["std"] else "min" if cfg["dt"]["std"] == cfg["step"] else "other"),
                  f"dt:steps:{'0' if len(obs.get('steps') or []) == 0 else '1-8' if len(obs['steps']) <= 8 else '9+'}"]
            if any(c[0] > cfg["step"] for c in clk):
                t.append("dt:global-step-grew")
            if any(len({r[1] for r in c[1:]}) > 1 for c in clk):
                t.append("dt:not-everyone-due-together")
        else:
            t.append("clock:simple")
        if obs.get("collisions"):
            t.append("hash-collision:resolved")
        elif cfg["keyCols"] and obs.get("collisions") == 0:
            t.append("hash-collision:none")
        return t

    def _tags_ext(self, cfg, obs):
        t = []
        if not has_ext(cfg):
            return ["ext:none"]
        if cfg.get("age"):
            t.append(f"ext:age:{cfg['age']['bits']}bits")
        pipe = cfg.get("pipe")
        if pipe:
            t.append("pipe:" + ("union" if pipe["mode"] == 1 else "replace"))
            t.append("pipe:keys:" + ("+".join(["sex", "state"][k] for k in pipe["keys"]) or "none"))
            t.append("pipe:table:" + ("interpolated" if pipe.get("edges") else "categorical"))
            t.append("pipe:source:" + ("table-object" if pipe["src"] == 0 and pipe["mode"] == 0 else "method"))
            mods = [pipe["mods"][c - 4] for c in cfg["order"] if 4 <= c <= 6]
            t.append(f"pipe:modifiers:{len(mods)}")
            for m in mods:
                t.append("pipe:modifier:" + (["mul", "add", "set"][m["kind"]] if pipe["mode"] == 0 else "contribution"))
            pvs = [pv for pv in (obs.get("pvals") or []) if pv and pv[0] != "error"]
            if pvs:
                t.append("pipe:called")
                if any(r[4] * 1 >= r[5] for pv in pvs for r in pv):
                    t.append("pipe:value>=1")
                if any(r[4] == 0 for pv in pvs for r in pv):
                    t.append("pipe:value=0")
                if pipe.get("edges") and any(not pipe["edges"][0] <= r[3] < pipe["edges"][-1] for pv in pvs for r in pv):
                    t.append("pipe:extrapolated")
        ob = cfg.get("obs")
        if ob:
            t.append("obs:observer-" + ("present" if 3 in cfg["order"] else "absent"))
            t.append(f"obs:stratifications:{len(ob['strats'])}")
            for sp in ob["strats"]:
                t.append("obs:strat:" + ["sex", "state", "mapper-combo", "mapper-tracked", "age-bin"][sp["kind"]])
                if sp["excl"]:
                    t.append("obs:excluded-category")
            if ob["defaults"]:
                t.append("obs:default-stratification")
            for o in ob["observations"]:
                t += [f"obs:when@{o['when']}", f"obs:filter:{o['filter']}", "obs:agg:" + ["count", "sum-entrance", "sum-age"][o["agg"]],
                      f"obs:every:{o['mod']}", f"obs:strata:{len(set(o['add']) | set(ob['defaults']))}"]
                if o["when"] == cfg["mortPhase"]:
                    t.append("obs:same-channel-as-mortality:" + ("manager-first" if cfg["mortPrio"] >= 5 else "mortality-first"))
            res = [r for r in (obs.get("results") or []) if r]
            if res and any(isinstance(v, list) and any(row[-2] for row in v) for v in res[-1].values()):
                t.append("obs:results-nonzero")
        return t

    def shrink(self, cfg):
        import copy

        def v(**kw):
            c = copy.deepcopy(cfg)
            c.update(kw)
            return c
        if cfg["nSteps"] > 0 and not cfg.get("dt"):
            n = cfg["nSteps"] - 1
            yield v(nSteps=n, stop=cfg["start"] + cfg["step"] * n, births=cfg["births"][:n])
        if cfg["pop"] > 0:
            yield v(pop=cfg["pop"] // 2)
            yield v(pop=cfg["pop"] - 1)
        for k, row in enumerate(cfg["births"]):
            for ph in range(4):
                if row[ph]:
                    b = copy.deepcopy(cfg["births"])
                    b[k][ph] = 0
                    yield v(births=b)
        if cfg["order"] != [0, 1, 2]:
            yield v(order=[0, 1, 2])
        if cfg["birthPrio"] != [5, 5, 5, 5]:
            yield v(birthPrio=[5, 5, 5, 5])
        if any(x for r in cfg["mortP"] for x in r):
            yield v(mortP=[[0] * len(r) for r in cfg["mortP"]])
        for j, sp in enumerate(cfg["states"]):
            if sp["trans"]:
                s = copy.deepcopy(cfg["states"])
                s[j]["trans"] = sp["trans"][:-1]
                yield v(states=s)
        if cfg.get("addSeed") is not None:
            yield v(addSeed=None)
        if cfg["start"] != 0 and not cfg.get("dt"):
            yield v(start=0, stop=cfg["stop"] - cfg["start"])
        if cfg["keyCols"]:
            yield v(keyCols=[])
        ob = cfg.get("obs")
        if ob:
            yield v(obs=None, order=[c for c in cfg["order"] if c != 3])
            for j in range(len(ob["observations"])):
                if len(ob["observations"]) > 1:
                    yield v(obs=dict(ob, observations=ob["observations"][:j] + ob["observations"][j + 1:]))
            for o_i, o in enumerate(ob["observations"]):
                if o["add"]:
                    o2 = dict(o, add=o["add"][:-1])
                    yield v(obs=dict(ob, observations=ob["observations"][:o_i] + [o2] + ob["observations"][o_i + 1:]))
        pipe = cfg.get("pipe")
        if pipe:
            yield v(pipe=None, order=[c for c in cfg["order"] if c not in (4, 5, 6)])
            for c in (6, 5, 4):
                if c in cfg["order"]:
                    yield v(order=[x for x in cfg["order"] if x != c])
        if cfg.get("age") and not (pipe and pipe.get("edges")) and not (ob and any(sp["kind"] == 4 for sp in ob["strats"])) \
                and not (ob and any(o["agg"] == 2 for o in ob["observations"])):
            yield v(age=None)

    def sample_view(self, cfg, obs):
        return {"case": cfg, "observed": {"init": show_table(obs.get("init"))[:400], "last": show_table((obs.get("steps") or [None])[-1])[:600],
                                          "error": obs.get("error"), "clocks": obs.get("clocks")}}


PROP = Whole()
