"""Python `ast` of the listed vivarium functions -> Lean DATA (`Viv.Py.Func`, lean/VivModel/Model/PyAst.lean) in
`lean/VivModel/Gen/Src.lean`, regenerated from the tree under test on every run.

Faithful dump, nothing clever: docstrings, annotations, defaults and exception messages are dropped; every construct
outside the subset (f-strings, lambdas, comprehensions, `with`, `while`, chained comparisons, tuple targets …) becomes
`Expr.other "<canonical source text>"` / `Stmt.other "…"`, which the theorems of `Props/Src.lean` can only evaluate
through `World.other` - so a function that starts using such a construct where the model needs to see through it
breaks its proof obligation instead of being silently mis-modelled.
"""
from __future__ import annotations

import ast

from . import paths

# (lean name, file relative to src/vivarium, class or None, function)
FUNCS = [
    ("pipelineCall", "framework/values.py", "Pipeline", "_call"),
    ("replaceCombiner", "framework/values.py", None, "replace_combiner"),
    ("listCombiner", "framework/values.py", None, "list_combiner"),
    ("eventEmit", "framework/event.py", "EventChannel", "emit"),
    ("lifecycleSetState", "framework/lifecycle.py", "LifeCycleManager", "set_state"),
    ("lifecycleValidNext", "framework/lifecycle.py", "LifeCycleState", "valid_next_state"),
    ("constraintCheck", "framework/lifecycle.py", "ConstraintMaker", "check_valid_state"),
    ("constraintWrapped", "framework/lifecycle.py", "ConstraintMaker", "constrain_normal_method._wrapped"),
    ("artifactLoad", "framework/artifact/artifact.py", "Artifact", "load"),
    ("artifactWrite", "framework/artifact/artifact.py", "Artifact", "write"),
    ("artifactRemove", "framework/artifact/artifact.py", "Artifact", "remove"),
    ("artifactReplace", "framework/artifact/artifact.py", "Artifact", "replace"),
    ("indexMapGetItem", "framework/randomness/index_map.py", "IndexMap", "__getitem__"),
    ("indexMapUpdate", "framework/randomness/index_map.py", "IndexMap", "update"),
    ("streamKey", "framework/randomness/stream.py", "RandomnessStream", "_key"),
    ("streamGetDraw", "framework/randomness/stream.py", "RandomnessStream", "get_draw"),
    ("streamFilterForProbability", "framework/randomness/stream.py", "RandomnessStream", "filter_for_probability"),
    ("resultsGather", "framework/results/manager.py", "ResultsManager", "gather_results"),
    ("machineTransition", "framework/state_machine.py", "Machine", "transition"),
    ("createSimulants", "framework/population/manager.py", "PopulationManager", "_create_simulants"),
    ("resourceSortedNodes", "framework/resource.py", "ResourceManager", "sorted_nodes"),
    ("viewUpdate", "framework/population/population_view.py", "PopulationView", "update"),
    ("viewGet", "framework/population/population_view.py", "PopulationView", "get"),
    ("clockStepForward", "framework/time.py", "SimulationClock", "step_forward"),
    ("clockActive", "framework/time.py", "SimulationClock", "get_active_simulants"),
    ("clockMoveToEnd", "framework/time.py", "SimulationClock", "move_simulants_to_end"),
    ("cmFlatten", "framework/components/manager.py", "ComponentManager", "_flatten"),
    ("cmAddComponents", "framework/components/manager.py", "ComponentManager", "add_components"),
    ("cmSetupComponents", "framework/components/manager.py", "ComponentManager", "setup_components"),
    ("cmSetupAll", "framework/components/manager.py", "ComponentManager", "_setup_components"),
    ("ocsAdd", "framework/components/manager.py", "OrderedComponentSet", "add"),
    ("ocsContains", "framework/components/manager.py", "OrderedComponentSet", "__contains__"),
    ("engineRun", "framework/engine.py", "SimulationContext", "run"),
]


class SrcError(Exception):
    pass


def _q(s: str) -> str:
    out = []
    for ch in s:
        if ch == "\\":
            out.append("\\\\")
        elif ch == '"':
            out.append('\\"')
        elif ch == "\n":
            out.append("\\n")
        elif ch == "\t":
            out.append("\\t")
        elif ord(ch) < 32 or ord(ch) > 126:
            out.append("\\u{%x}" % ord(ch))
        else:
            out.append(ch)
    return '"' + "".join(out) + '"'


def _other(node) -> str:
    return "(.other %s)" % _q(ast.unparse(node))


def _lst(xs) -> str:
    return "[" + ", ".join(xs) + "]"


_LOCALS: set = set()      # names bound in the function being translated (parameters, assignment and loop targets)


def _bound_names(f) -> set:
    a = f.args
    names = {x.arg for x in a.posonlyargs + a.args + a.kwonlyargs}
    if a.vararg:
        names.add(a.vararg.arg)
    if a.kwarg:
        names.add(a.kwarg.arg)
    for n in ast.walk(f):
        if isinstance(n, ast.Name) and isinstance(n.ctx, (ast.Store, ast.Del)):
            names.add(n.id)
        elif isinstance(n, ast.ExceptHandler) and n.name:
            names.add(n.name)
        elif isinstance(n, (ast.Import, ast.ImportFrom)):
            for al in n.names:
                names.add((al.asname or al.name).split(".")[0])
    return names


def expr(n) -> str:
    if isinstance(n, ast.Name):
        return "(.%s %s)" % ("name" if n.id in _LOCALS else "glob", _q(n.id))
    if isinstance(n, ast.Attribute):
        return "(.attr %s %s)" % (expr(n.value), _q(n.attr))
    if isinstance(n, ast.Constant):
        v = n.value
        if v is None:
            return ".noneE"
        if v is True or v is False:
            return "(.boolE %s)" % ("true" if v else "false")
        if isinstance(v, int):
            return "(.intE (%d))" % v
        if isinstance(v, str):
            return "(.strE %s)" % _q(v)
        return _other(n)
    if isinstance(n, ast.Call):
        args = [("(.star %s)" % expr(a.value)) if isinstance(a, ast.Starred) else expr(a) for a in n.args]
        kws = ["(.kw %s %s)" % (_q(k.arg if k.arg is not None else "**"), expr(k.value)) for k in n.keywords]
        return "(.call %s %s %s)" % (expr(n.func), _lst(args), _lst(kws))
    if isinstance(n, ast.UnaryOp):
        if isinstance(n.op, ast.Not):
            return "(.notE %s)" % expr(n.operand)
        if isinstance(n.op, ast.USub):
            return "(.neg %s)" % expr(n.operand)
        return _other(n)
    if isinstance(n, ast.BoolOp):
        ctor = ".andE" if isinstance(n.op, ast.And) else ".orE"
        vals = [expr(v) for v in n.values]
        acc = vals[-1]
        for v in reversed(vals[:-1]):      # a and b and c == a and (b and c)
            acc = "(%s %s %s)" % (ctor, v, acc)
        return acc
    if isinstance(n, ast.Compare):
        if len(n.ops) != 1:
            return _other(n)
        return "(.cmp %s %s %s)" % (_q(type(n.ops[0]).__name__), expr(n.left), expr(n.comparators[0]))
    if isinstance(n, ast.BinOp):
        return "(.bin %s %s %s)" % (_q(type(n.op).__name__), expr(n.left), expr(n.right))
    if isinstance(n, ast.Subscript):
        return "(.sub %s %s)" % (expr(n.value), expr(n.slice))
    if isinstance(n, ast.Slice):
        if n.step is not None:
            return _other(n)
        return "(.slice %s %s)" % (expr(n.lower) if n.lower else ".noneE", expr(n.upper) if n.upper else ".noneE")
    if isinstance(n, ast.DictComp) and len(n.generators) == 1 and not n.generators[0].ifs and not n.generators[0].is_async \
            and isinstance(n.generators[0].target, ast.Name):
        g = n.generators[0]
        saved = set(_LOCALS)
        _LOCALS.add(g.target.id)
        try:
            return "(.dictComp %s %s %s %s)" % (expr(n.key), expr(n.value), _q(g.target.id), expr(g.iter))
        finally:
            _LOCALS.clear()
            _LOCALS.update(saved | {g.target.id})
    if isinstance(n, ast.ListComp) and len(n.generators) == 1 and not n.generators[0].ifs and not n.generators[0].is_async \
            and isinstance(n.generators[0].target, ast.Name):
        g = n.generators[0]
        saved = set(_LOCALS)
        _LOCALS.add(g.target.id)
        try:
            return "(.listComp %s %s %s)" % (expr(n.elt), _q(g.target.id), expr(g.iter))
        finally:
            _LOCALS.clear()
            _LOCALS.update(saved | {g.target.id})
    if isinstance(n, ast.ListComp) and len(n.generators) == 1 and len(n.generators[0].ifs) == 1 and not n.generators[0].is_async \
            and isinstance(n.generators[0].target, ast.Name):
        g = n.generators[0]
        saved = set(_LOCALS)
        _LOCALS.add(g.target.id)
        try:
            return "(.listCompIf %s %s %s %s)" % (expr(n.elt), _q(g.target.id), expr(g.iter), expr(g.ifs[0]))
        finally:
            _LOCALS.clear()
            _LOCALS.update(saved | {g.target.id})
    if isinstance(n, ast.IfExp):
        return "(.ifE %s %s %s)" % (expr(n.test), expr(n.body), expr(n.orelse))
    if isinstance(n, ast.Dict) and not n.keys:
        return "(.other \"{}\")"
    if isinstance(n, ast.JoinedStr):
        parts = []
        for v in n.values:
            if isinstance(v, ast.Constant) and isinstance(v.value, str):
                parts.append("(.strE %s)" % _q(v.value))
            elif isinstance(v, ast.FormattedValue) and v.conversion == -1 and v.format_spec is None:
                parts.append("(.fmt %s)" % expr(v.value))
            else:
                return _other(n)
        return "(.fstr %s)" % _lst(parts)
    if isinstance(n, ast.List):
        return "(.listE %s)" % _lst([expr(e) for e in n.elts])
    if isinstance(n, ast.Tuple):
        return "(.tupleE %s)" % _lst([expr(e) for e in n.elts])
    return _other(n)


def _exc_class(n) -> str | None:
    if isinstance(n, ast.Call):
        n = n.func
    if isinstance(n, ast.Name):
        return n.id
    if isinstance(n, ast.Attribute):
        return n.attr
    return None


def _is_docstring(s) -> bool:
    return isinstance(s, ast.Expr) and isinstance(s.value, ast.Constant) and isinstance(s.value.value, str)


def block(body) -> str:
    return _lst([stmt(s) for s in body if not _is_docstring(s)])


def stmt(s) -> str:
    if isinstance(s, ast.Assign):
        if len(s.targets) != 1:
            return "(.other %s)" % _q(ast.unparse(s))
        t = s.targets[0]
        if isinstance(t, (ast.Tuple, ast.List)):
            if all(isinstance(e, ast.Name) for e in t.elts):     # `a, b = value`: the value is unpacked positionally
                return "(.assign (.tupleE %s) %s)" % (_lst([expr(e) for e in t.elts]), expr(s.value))
            return "(.other %s)" % _q(ast.unparse(s))
        return "(.assign %s %s)" % (expr(t), expr(s.value))
    if isinstance(s, ast.AnnAssign) and s.value is not None:
        return "(.assign %s %s)" % (expr(s.target), expr(s.value))
    if isinstance(s, ast.AugAssign):
        return "(.aug %s %s %s)" % (_q(type(s.op).__name__), expr(s.target), expr(s.value))
    if isinstance(s, ast.Expr):
        return "(.expr %s)" % expr(s.value)
    if isinstance(s, ast.Return):
        return "(.ret %s)" % (expr(s.value) if s.value is not None else ".noneE")
    if isinstance(s, ast.Raise):
        if s.exc is None:
            return ".reraise"
        c = _exc_class(s.exc)
        return "(.raise %s)" % _q(c) if c else "(.other %s)" % _q(ast.unparse(s))
    if isinstance(s, ast.If):
        return "(.ifS %s %s %s)" % (expr(s.test), block(s.body), block(s.orelse))
    if isinstance(s, ast.For) and not s.orelse and (not isinstance(s.target, (ast.Tuple, ast.List)) or all(isinstance(e, ast.Name) for e in s.target.elts)):
        return "(.forS %s %s %s)" % (expr(s.target), expr(s.iter), block(s.body))
    if isinstance(s, ast.Try) and not s.orelse and not s.finalbody and len(s.handlers) == 1 and s.handlers[0].name is None \
            and (s.handlers[0].type is None or (isinstance(s.handlers[0].type, ast.Name) and s.handlers[0].type.id in ("Exception", "BaseException"))):
        return "(.tryS %s %s)" % (block(s.body), block(s.handlers[0].body))
    if isinstance(s, ast.Try) and not s.orelse and not s.finalbody and len(s.handlers) == 1 and s.handlers[0].name is None \
            and _exc_class(s.handlers[0].type) is not None:
        return "(.tryC %s %s %s)" % (block(s.body), _q(_exc_class(s.handlers[0].type)), block(s.handlers[0].body))
    if isinstance(s, ast.While) and not s.orelse:
        return "(.whileS %s %s)" % (expr(s.test), block(s.body))
    if isinstance(s, ast.Assert):
        return "(.assertS %s)" % expr(s.test)
    if isinstance(s, ast.Pass):
        return ".pass"
    if isinstance(s, ast.Continue):
        return ".continueS"
    if isinstance(s, ast.Break):
        return ".breakS"
    return "(.other %s)" % _q(ast.unparse(s))


def _find(tree, cls, fn):
    scope = tree.body
    if cls is not None:
        for n in tree.body:
            if isinstance(n, ast.ClassDef) and n.name == cls:
                scope = n.body
                break
        else:
            raise SrcError(f"class {cls} not found")
    # `outer.inner`: a function defined inside another one (a closure: its free variables are locals of the translation)
    parts = fn.split(".")
    for k, part in enumerate(parts):
        found = None
        for n in scope:
            if isinstance(n, (ast.FunctionDef,)) and n.name == part:
                found = n
                break
        if found is None:
            raise SrcError(f"function {cls + '.' if cls else ''}{fn} not found")
        if k == len(parts) - 1:
            return found
        scope = found.body
    raise SrcError(f"function {cls + '.' if cls else ''}{fn} not found")


def func(rel, cls, fn) -> str:
    path = paths.repo() / "src" / "vivarium" / rel
    try:
        tree = ast.parse(path.read_text())
    except (OSError, SyntaxError) as e:
        raise SrcError(f"{rel}: {e}")
    f = _find(tree, cls, fn)
    global _LOCALS
    _LOCALS = _bound_names(f)
    if "." in fn:      # a closure: what the enclosing functions bind is in scope too
        outer = _find(tree, cls, fn.rsplit(".", 1)[0])
        _LOCALS |= _bound_names(outer)
    a = f.args
    params = [x.arg for x in a.posonlyargs + a.args]
    if a.vararg:
        params.append("*" + a.vararg.arg)
    params += [x.arg for x in a.kwonlyargs]
    if a.kwarg:
        params.append("**" + a.kwarg.arg)
    return "{ params := %s,\n    body := %s }" % (_lst([_q(p) for p in params]), block(f.body))


def render_src() -> str:
    o = ["import VivModel.Model.PyAst",
         "/-! GENERATED by vcheck/py2lean.py from the working tree of the repository under test: the Python `ast` of the",
         "    functions listed there, as data of `Viv.Py.Func` (Model/PyAst.lean). Never edited by hand; rewritten (when",
         "    changed) by every run of `./check`. -/",
         "namespace Viv.Gen.Src",
         "open Viv.Py", ""]
    for lean_name, rel, cls, fn in FUNCS:
        try:
            body = func(rel, cls, fn)
        except SrcError as e:
            # a function that disappeared: keep the file building, the theorems about it break (they need its body)
            body = "{ params := [], body := [.other %s] }" % _q("MISSING: " + str(e))
        o.append(f"/-- `{(cls + '.') if cls else ''}{fn}` of `{rel}` -/")
        o.append(f"def {lean_name} : Func :=\n  {body}\n")
    o.append("end Viv.Gen.Src\n")
    return "\n".join(o)


if __name__ == "__main__":
    print(render_src())
