"""Generic control flow of one `./check <id>` run (DESIGN.md section 2.3)."""
from __future__ import annotations

import hashlib
import json
import multiprocessing
import os
import random
import signal
import sys
import time
import traceback

from . import evidence, findings, leanside, paths

STD_TRUSTED = [
    "Lean 4.33.0 kernel (leanchecker re-check in the thorough tier)",
    "axioms per theorem: subset of {propext, Classical.choice, Quot.sound}, audited by #print axioms on this run; no sorry/native_decide/bv_decide/axiom",
    "vcheck/translate.py (Python ast -> Gen/Tables.lean) renders literal tables faithfully",
    "vcheck/py2lean.py dumps the Python ast of the listed functions faithfully into Gen/Src.lean; Model/PyAst.lean (evaluator of that Python "
    "subset) and the per-property World dictionaries of Props/*Src.lean (which Python object / attribute is which model entity) are the "
    "semantics under which the *Src theorems tie the source to the model",
    "correspondence harness, canonicalisers and the Lean driver's line parser",
    "modelled, not verified: pandas/numpy primitives, CPython, float arithmetic (idealised as exact), user callables",
]


class Prop:
    """Base class of a property check; see vcheck/props/*.py."""

    id = "C00"
    lean_modules: list[str] = []     # VivModel.Props.* modules holding the property theorems
    build_targets: list[str] = []    # further modules the driver imports
    driver: str | None = None        # Driver/<driver>.lean
    extra_drivers: list[str] = []    # further drivers some cases are sent to (see driver_of)
    technique = "Lean 4 proof + correspondence"
    trusted_extra: list[str] = []
    partial: str | None = None       # what part of the property lives in the runtime (explored, not proved)
    n_quick = 100
    n_thorough = 1500
    case_timeout = 60                # seconds per case
    workers = 1                      # >1: run_impl in a fork pool
    rule = "distinct = different canonical case hash; non-trivial = prop-specific predicate on the observed behaviour"

    def driver_of(self, case):
        """the Lean driver that interprets this case's model lines (default: the property's own driver); a check that also
        runs cases of another model (e.g. the composed WHOLE model) names that model's driver here"""
        return self.driver

    def boundary(self) -> list:
        return []

    def generate(self, rng: random.Random, i: int, tier: str):
        raise NotImplementedError

    def run_impl(self, case):
        raise NotImplementedError

    def model_lines(self, case, obs) -> list[str]:
        return []

    def compare(self, case, obs, replies: list[str]) -> list[str]:
        return []

    def oracle(self, case, obs) -> list[dict]:
        return []

    def nontrivial(self, case, obs) -> bool:
        return True

    def tags(self, case, obs) -> list[str]:
        return []

    def shrink(self, case):
        return []

    def sample_view(self, case, obs):
        return {"case": case, "observed": obs}


class CaseTimeout(Exception):
    pass


class CaseStarved(Exception):
    """wall-clock budget exhausted although the case used less CPU time than its budget: the machine, not the code"""


def _alarm(signum, frame):
    raise CaseTimeout()


def _alarm_wall(signum, frame):
    raise CaseStarved()


def _run_one(prop: Prop, case):
    # The budget of a case is CPU time of this process (ITIMER_PROF): a hang in the implementation spins and uses it up,
    # a machine oversubscribed by other checks does not. A generous wall-clock limit (10 x, at least 10 min) catches a
    # case that blocks without computing; that is reported as an infrastructure error (exit 2), never as a violation.
    # Repeating timers: a single exception can be swallowed by an `except` inside pandas while a loop keeps spinning.
    signal.signal(signal.SIGPROF, _alarm)
    signal.signal(signal.SIGALRM, _alarm_wall)
    signal.setitimer(signal.ITIMER_PROF, float(prop.case_timeout), 2.0)
    signal.setitimer(signal.ITIMER_REAL, max(10.0 * float(prop.case_timeout), 600.0), 5.0)
    try:
        return prop.run_impl(case)
    except CaseTimeout:
        return {"__timeout__": True}
    except CaseStarved:
        return {"__infra__": f"case exceeded its wall-clock limit using less than {prop.case_timeout}s of CPU time (machine load)"}
    except BaseException as e:  # noqa: BLE001 - an escaping exception is itself an observation
        if isinstance(e, (KeyboardInterrupt, SystemExit)):
            raise
        if type(e).__name__.endswith("InfraError"):
            return {"__infra__": f"{type(e).__name__}: {e}"}
        return {"__crash__": f"{type(e).__name__}: {e}", "__trace__": traceback.format_exc()[-1500:]}
    finally:
        signal.setitimer(signal.ITIMER_PROF, 0)
        signal.setitimer(signal.ITIMER_REAL, 0)


_POOL_PROP = None


def _pool_run(case):
    return _run_one(_POOL_PROP, case)


def run_impl_many(prop: Prop, cases: list) -> list:
    global _POOL_PROP
    if prop.workers <= 1 or len(cases) < 4:
        return [_run_one(prop, c) for c in cases]
    _POOL_PROP = prop
    import concurrent.futures as cf
    from concurrent.futures.process import BrokenProcessPool
    ctx = multiprocessing.get_context("fork")
    try:
        with cf.ProcessPoolExecutor(min(prop.workers, os.cpu_count() or 1), mp_context=ctx) as ex:
            return list(ex.map(_pool_run, cases, chunksize=max(1, len(cases) // (prop.workers * 4))))
    except BrokenProcessPool as e:
        # a worker process died (killed, or the tree under test vanished): infrastructure, not a verdict
        return [{"__infra__": f"worker pool broke: {e}"}]


def case_hash(case) -> str:
    return hashlib.sha1(json.dumps(case, sort_keys=True, default=str).encode()).hexdigest()[:16]


def load_corpus(prop: Prop) -> list:
    d = paths.VERIF / "corpus" / prop.id
    out = []
    if d.is_dir():
        for f in sorted(d.glob("*.json")):
            try:
                out.append(json.loads(f.read_text())["case"])
            except Exception:  # noqa: BLE001
                pass
    return out


def evaluate(prop: Prop, cases: list):
    """Run implementation + model + oracle on `cases`. Returns per-case records and a driver error (or None)."""
    obs = run_impl_many(prop, cases)
    for o in obs:
        if isinstance(o, dict) and "__infra__" in o:
            sys.stderr.write(f"[{prop.id}] infrastructure error, no verdict: {o['__infra__'][:600]}\n")
            sys.exit(2)
    recs = []
    lines_of: dict = {}          # driver -> all lines sent to it; a case's lines go to the driver `prop.driver_of(case)` names
    for c, o in zip(cases, obs):
        rec = {"case": c, "obs": o, "failures": [], "disagreements": [], "lines": []}
        if isinstance(o, dict) and o.get("__timeout__"):
            rec["failures"].append({"sig": "timeout", "msg": f"implementation did not finish within {prop.case_timeout}s"})
        elif isinstance(o, dict) and "__crash__" in o:
            rec["failures"].append({"sig": "harness-crash", "msg": o["__crash__"]})
        else:
            try:
                rec["failures"] = list(prop.oracle(c, o))
            except Exception as e:  # noqa: BLE001
                rec["failures"] = [{"sig": "oracle-crash", "msg": f"{type(e).__name__}: {e}\n{traceback.format_exc()[-800:]}"}]
            try:
                rec["lines"] = list(prop.model_lines(c, o)) if prop.driver else []
            except Exception as e:  # noqa: BLE001
                rec["disagreements"].append(f"model_lines crashed: {type(e).__name__}: {e}")
        drv = prop.driver_of(c) if prop.driver else None
        buf = lines_of.setdefault(drv, [])
        rec["_drv"], rec["_span"] = drv, (len(buf), len(buf) + 1 + len(rec["lines"]))
        buf.append("begin")
        buf.extend(rec["lines"])
        recs.append(rec)
    driver_error = None
    if prop.driver:
        for drv, all_lines in lines_of.items():
            try:
                replies = leanside.run_driver(drv, all_lines)
                for rec in recs:
                    if rec["_drv"] != drv or not rec["lines"]:
                        continue
                    a, b = rec["_span"]
                    try:
                        rec["disagreements"] += list(prop.compare(rec["case"], rec["obs"], replies[a + 1:b]))
                    except Exception as e:  # noqa: BLE001
                        rec["disagreements"].append(f"compare crashed: {type(e).__name__}: {e}")
                    rec["replies"] = replies[a + 1:b]
            except (leanside.DriverError, Exception) as e:  # noqa: BLE001
                driver_error = ((driver_error + "\n") if driver_error else "") + str(e)[-3000:]
    for rec in recs:
        rec.pop("_drv", None)
        rec.pop("_span", None)
    return recs, driver_error


def shrink_failure(prop: Prop, rec: dict, want_sig: str | None, budget_s: float = 30.0) -> dict:
    """Greedy shrink of an oracle failure (re-runs the implementation only)."""
    t0 = time.time()
    best = rec
    improved = True
    while improved and time.time() - t0 < budget_s:
        improved = False
        for cand in prop.shrink(best["case"]):
            if time.time() - t0 > budget_s:
                break
            o = _run_one(prop, cand)
            if isinstance(o, dict) and ("__crash__" in o or o.get("__timeout__")):
                fails = [{"sig": "timeout" if o.get("__timeout__") else "harness-crash", "msg": str(o)[:300]}]
            else:
                try:
                    fails = list(prop.oracle(cand, o))
                except Exception:  # noqa: BLE001
                    continue
            if any(want_sig is None or f["sig"] == want_sig for f in fails):
                best = {"case": cand, "obs": o, "failures": fails, "disagreements": [], "lines": []}
                improved = True
                break
    return best


def write_replay(prop: Prop, seed: int, tier: str, n: int, payload: dict) -> str:
    d = paths.VERIF / "replays"
    d.mkdir(exist_ok=True)
    p = d / f"{prop.id}-seed{seed}-{tier}-{n}.json"
    payload = dict(payload, property=prop.id, seed=seed, tier=tier,
                   repo=str(paths.repo()), replay_cmd=f"./check {prop.id} --replay {p.relative_to(paths.VERIF)}")
    p.write_text(json.dumps(payload, indent=1, default=str))
    return str(p.relative_to(paths.VERIF))


def run_check(prop: Prop, tier: str, seed: int) -> int:
    t0 = time.time()
    for old in (paths.VERIF / "replays").glob(f"{prop.id}-seed{seed}-{tier}-*.json"):
        old.unlink(missing_ok=True)
    info = {"translate": None, "build": None, "audit": None, "leanchecker": None}
    broken = []          # proof obligations / translation / audit that no longer check
    # 1-3: translate, build, audit
    tr = leanside.prepare_workspace()
    try:
        return _run_check_locked(prop, tier, seed, t0, info, broken, tr)
    finally:
        leanside.release_workspace(tr)


def _run_check_locked(prop, tier, seed, t0, info, broken, tr) -> int:
    info["translate"] = tr
    if tr["error"]:
        broken.append(f"translator: {tr['error']}")
    props_targets = list(prop.lean_modules)
    b_model = leanside.build(list(prop.build_targets)) if prop.build_targets else {"ok": True, "wall_s": 0, "output": "", "broken_at": []}
    b = leanside.build(props_targets)
    info["build"] = {"ok": b["ok"] and b_model["ok"], "wall_s": b["wall_s"] + b_model["wall_s"], "broken_at": b["broken_at"] + b_model["broken_at"]}
    audit = None
    if not b_model["ok"]:
        broken.append("model build failed: " + ", ".join(b_model["broken_at"]) + "\n" + b_model["output"][-1500:])
    if not b["ok"]:
        names = []
        for mod in prop.lean_modules:
            f = paths.LEAN / (mod.replace(".", "/") + ".lean")
            names += leanside.locate_broken(f, b["broken_at"])
        broken.append("theorems that no longer check: " + ", ".join(sorted(set(names)) or ["<build error>"]) + "\n" + b["output"][-1500:])
    else:
        audit = leanside.audit(prop.id, prop.lean_modules, ([prop.driver] if prop.driver else []) + list(prop.extra_drivers))
        info["audit"] = {k: audit[k] for k in ("ok", "forbidden", "nonstandard", "wall_s")}
        if not audit["ok"]:
            broken.append("audit: " + "; ".join(audit["forbidden"] + audit["nonstandard"]) + audit.get("raw_tail", ""))
        if tier == "thorough":
            lc = leanside.leanchecker(prop.lean_modules)
            info["leanchecker"] = lc
            if not lc["ok"]:
                broken.append("leanchecker: " + lc["output"][-800:])
    # 4-5: correspondence + oracle
    rng = random.Random(f"{prop.id}:{seed}")
    n = prop.n_thorough if tier == "thorough" else prop.n_quick
    corpus = load_corpus(prop)
    cases = corpus + list(prop.boundary()) + [prop.generate(rng, i, tier) for i in range(n)]
    recs, driver_error = evaluate(prop, cases)
    if driver_error:
        broken.append("correspondence driver failed: " + driver_error)
    return conclude(prop, tier, seed, t0, info, broken, audit, recs, rng, n_corpus=len(corpus))


def conclude(prop, tier, seed, t0, info, broken, audit, recs, rng, n_corpus=0, replaying=False) -> int:
    kf = findings.load()
    violations = []       # (sig, rec)
    known_hits = {}
    for rec in recs:
        for f in rec["failures"]:
            k = findings.match(kf, prop.id, f["sig"])
            if k:
                known_hits.setdefault(k["id"], (k, rec, f))
            else:
                violations.append((f, rec))
    disagreements = [rec for rec in recs if rec["disagreements"]]
    out_lines = []
    exit_code = 0
    replay_n = 0
    # --- failing inputs found directly
    seen_sigs = set()
    for f, rec in violations:
        if f["sig"] in seen_sigs:
            continue
        seen_sigs.add(f["sig"])
        small = rec if replaying else shrink_failure(prop, rec, f["sig"])
        path = write_replay(prop, seed, tier, replay_n, {
            "kind": "failing-input", "signature": f["sig"], "message": f["msg"],
            "case": small["case"], "observed": small["obs"], "failures": small["failures"],
            "broken_obligations": broken})
        replay_n += 1
        out_lines.append(f"VIOLATION property={prop.id} replay={path}")
        exit_code = 1
    # --- broken proof / correspondence without a failing input so far: search further
    searched_extra = 0
    if not violations and (broken or disagreements) and not replaying:
        extra_n = max(prop.n_thorough // 2, prop.n_quick * 3)
        t_search = time.time()
        found = None
        seeds = [d["case"] for d in disagreements[:5]]
        cand = []
        for c in seeds:
            cand += list(prop.shrink(c))[:20]
        batch = cand + [prop.generate(rng, 10_000 + i, "thorough") for i in range(extra_n)]
        CH = 200
        for k in range(0, len(batch), CH):
            if time.time() - t_search > 600:
                break
            obs = run_impl_many(prop, batch[k:k + CH])
            for c, o in zip(batch[k:k + CH], obs):
                searched_extra += 1
                if isinstance(o, dict) and (o.get("__timeout__") or "__crash__" in o):
                    fl = [{"sig": "timeout" if o.get("__timeout__") else "harness-crash", "msg": str(o)[:300]}]
                else:
                    try:
                        fl = list(prop.oracle(c, o))
                    except Exception:  # noqa: BLE001
                        fl = []
                fl = [f for f in fl if not findings.match(kf, prop.id, f["sig"])]
                if fl:
                    found = ({"case": c, "obs": o, "failures": fl, "disagreements": [], "lines": []}, fl[0])
                    break
            if found:
                break
        if found:
            rec, f = found
            small = shrink_failure(prop, rec, f["sig"])
            path = write_replay(prop, seed, tier, replay_n, {
                "kind": "failing-input", "signature": f["sig"], "message": f["msg"],
                "case": small["case"], "observed": small["obs"], "failures": small["failures"],
                "broken_obligations": broken,
                "first_disagreement": disagreements[0]["disagreements"][:3] if disagreements else None})
            out_lines.append(f"VIOLATION property={prop.id} replay={path}")
        else:
            d0 = disagreements[0] if disagreements else None
            path = write_replay(prop, seed, tier, replay_n, {
                "kind": "no-failing-input-found",
                "no_longer_checks": broken + ([f"correspondence op stream of Driver/{prop.driver}.lean: model and implementation differ"] if disagreements else []),
                "disagreement_count": len(disagreements),
                "case": d0["case"] if d0 else None, "observed": d0["obs"] if d0 else None,
                "model_lines": d0["lines"] if d0 else None, "model_replies": d0.get("replies") if d0 else None,
                "disagreements": d0["disagreements"][:10] if d0 else None,
                "searched_further_cases": searched_extra})
            out_lines.append(f"VIOLATION property={prop.id} replay={path} no-failing-input-found")
        replay_n += 1
        exit_code = 1
    elif replaying and not violations and disagreements:
        d0 = disagreements[0]
        path = write_replay(prop, seed, tier, replay_n, {"kind": "no-failing-input-found", "case": d0["case"],
                            "observed": d0["obs"], "disagreements": d0["disagreements"][:10], "no_longer_checks": broken})
        out_lines.append(f"VIOLATION property={prop.id} replay={path} no-failing-input-found")
        exit_code = 1
    for k, rec, f in known_hits.values():
        out_lines.append(f"KNOWN-FINDING: property={prop.id} {k['what']}")
    # --- evidence
    hashes = {}
    tagcount = {}
    for rec in recs:
        o = rec["obs"]
        bad = isinstance(o, dict) and (o.get("__timeout__") or "__crash__" in o)
        try:
            nt = (not bad) and prop.nontrivial(rec["case"], o)
            tg = [] if bad else prop.tags(rec["case"], o)
        except Exception:  # noqa: BLE001
            nt, tg = False, []
        h = case_hash(rec["case"])
        hashes[h] = hashes.get(h, False) or nt
        for t in tg:
            tagcount[t] = tagcount.get(t, 0) + 1
    theorems = audit["theorems"] if audit else {}
    obligations = len(theorems)
    discharged = sum(1 for ax in theorems.values() if ax is not None and set(ax) <= leanside.STD_AXIOMS) if info["build"]["ok"] else 0
    if not audit:
        # the build failed: count the theorems from the source so the shortfall is visible
        for mod in prop.lean_modules:
            f = paths.LEAN / (mod.replace(".", "/") + ".lean")
            obligations += len(leanside.theorem_names(f)[1])
    samples = []
    for rec in recs[:2] + recs[n_corpus + len(prop.boundary()):][:2]:
        try:
            samples.append(json.loads(json.dumps(prop.sample_view(rec["case"], rec["obs"]), default=str)))
        except Exception:  # noqa: BLE001
            pass
    if theorems:
        samples.append({"obligation": next(iter(theorems)), "axioms": next(iter(theorems.values()))})
    cov = {
        "obligations": obligations,
        "discharged": discharged,
        "checker_cmd": f"cd lean && lake build {' '.join(prop.lean_modules)} && lake env lean .lake/audit/{prop.id}.lean"
                       + (" && lake env leanchecker " + " ".join(prop.lean_modules) if tier == "thorough" else ""),
        "trusted_base": STD_TRUSTED + list(prop.trusted_extra),
        "theorems": {k: v for k, v in theorems.items()},
        "evaluations": len(recs) + searched_extra,
        "distinct_nontrivial": sum(1 for v in hashes.values() if v),
        "distinct": len(hashes),
        "rule": prop.rule,
        "samples": samples or [{"note": "no case ran"}],
        "traces_validated_against_impl": sum(1 for r in recs if r.get("replies") is not None and not r["disagreements"]),
        "disagreements_checked": len(disagreements),
        "programs": len(recs),
        "distribution": dict(sorted(tagcount.items())),
        "corpus_cases": n_corpus,
        "translate": info["translate"],
        "build": info["build"],
        "audit": info["audit"],
        "leanchecker": ({"ok": info["leanchecker"]["ok"], "wall_s": info["leanchecker"]["wall_s"]} if info["leanchecker"] else None),
        "broken_obligations": broken,
        "known_findings_hit": sorted(known_hits),
        "partial": prop.partial,
        "exhaustive": False,
    }
    ev = {
        "property_id": prop.id, "tier": tier, "seed": seed, "level": "proof", "coverage": cov,
        "assumptions": STD_TRUSTED + list(prop.trusted_extra) + ([f"partial: {prop.partial}"] if prop.partial else []),
        "wall_s": round(time.time() - t0, 2), "violations": sum(1 for l in out_lines if l.startswith("VIOLATION")),
    }
    if discharged == 0:
        # the schema only accepts a proof-level block with discharged >= 1; say so in other words
        cov["discharged_count"] = cov.pop("discharged")
    ev_ok = True
    if not replaying:
        ev_ok = evidence.write(prop.id, ev)
    for l in out_lines:
        print(l)
    print(f"[{prop.id}] tier={tier} seed={seed} obligations={obligations} discharged={discharged} cases={len(recs)} "
          f"nontrivial={cov['distinct_nontrivial']} disagreements={len(disagreements)} violations={ev['violations']} "
          f"known={len(known_hits)} wall={ev['wall_s']}s", file=sys.stderr)
    if not ev_ok and exit_code == 0:
        return 2            # a run that found nothing but could not describe itself is an infrastructure failure
    return exit_code


def run_replay(prop: Prop, path: str) -> int:
    t0 = time.time()
    data = json.loads((paths.VERIF / path).read_text() if not os.path.isabs(path) else open(path).read())
    case = data.get("case")
    tr = leanside.prepare_workspace()
    try:
        return _run_replay_locked(prop, path, data, case, tr, t0)
    finally:
        leanside.release_workspace(tr)


def _run_replay_locked(prop, path, data, case, tr, t0) -> int:
    broken = []
    if tr["error"]:
        broken.append(f"translator: {tr['error']}")
    bm = leanside.build(list(prop.build_targets) + list(prop.lean_modules))
    if not bm["ok"]:
        broken.append("build failed: " + ", ".join(bm["broken_at"]))
    info = {"translate": tr, "build": {"ok": bm["ok"], "wall_s": bm["wall_s"], "broken_at": bm["broken_at"]}, "audit": None, "leanchecker": None}
    recs = []
    if case is not None:
        recs, derr = evaluate(prop, [case])
        if derr:
            broken.append("correspondence driver failed: " + derr)
    rc = conclude(prop, data.get("tier", "quick"), int(data.get("seed", 0)), t0, info, broken, None, recs,
                  random.Random(0), replaying=True)
    if rc == 0 and broken and data.get("kind") == "no-failing-input-found":
        print(f"VIOLATION property={prop.id} replay={path} no-failing-input-found")
        return 1
    return rc
