"""Shared by the C02 and C05 checks: a real randomness stack to draw from.

An *environment* is described by JSON:
  {"mode": "sim" | "direct", "crn": bool, "clock": "simple" | "datetime", "size": n, "pop": n,
   "seed": [random_seed, additional_seed | None],          (sim: configuration values; direct: seed = str(a) + str(b))
   "streams": [[decision_point, seed_override | None], …],   (seed_override only in direct mode)
   "labels": [..]                                           (direct mode: simulant labels registered first)}

mode "sim":    a real SimulationContext (setup + initialize_simulants) with a probe component that obtains its
               streams from `builder.randomness.get_stream`, creates the key columns with an
               `initializes_crn_attributes` stream and registers the simulants (when key columns are configured);
               time advances with `sim.step()`, simulants are added with the simulant creator.
mode "direct": `RandomnessStream(key, clock, seed, IndexMap(...))` objects on a scripted clock.
"""
from __future__ import annotations

import math
from fractions import Fraction

from . import impl

TWO53 = 1 << 53
KEY_COLS = ["entrance_time", "age"]
_BAD = (2, 3, 7, 11, 13, 37)      # prime factors of 2 * 111111: the collision loop of IndexMap needs gcd(size, ·) = 1


def good_sizes(lo: int, hi: int) -> list[int]:
    return [s for s in range(lo, hi + 1) if all(s % p for p in _BAD)]


def hx(s: str) -> str:
    return "x" + s.encode("ascii").hex()


def numer(x: float):
    """numerator over 2^53 of a float that is a multiple of 2^-53 in [0, 1); None otherwise"""
    f = Fraction(float(x)) * TWO53
    return int(f) if f.denominator == 1 else None


def fhex(x) -> str:
    return float(x).hex()


def exc_class(e: BaseException) -> str:
    return "err:" + type(e).__name__


# ---------------------------------------------------------------------- argument kinds (LESSONS.md 3: do not normalise inputs)
IX_KINDS = ["int64", "range", "int32", "uint64", "int8", "named", "pop"]


def ak_obj(ak):
    """the additional key as the Python object handed to the stream. JSON forms: None / int / str as they are;
    {"f": 1.5} float, {"b": true} bool, {"t": [..]} tuple, {"np": 7} numpy int64, {"ts": "2020-01-01 06:00"} Timestamp"""
    if not isinstance(ak, dict):
        return ak
    (k, v), = ak.items()
    if k == "f":
        return float(v)
    if k == "b":
        return bool(v)
    if k == "t":
        return tuple(v)
    if k == "np":
        import numpy as np
        return np.int64(v)
    if k == "ts":
        import pandas as pd
        return pd.Timestamp(v)
    raise ValueError(ak)


def ak_str(ak) -> str:
    """what identifies an additional key in the seed string: its str()"""
    return str(ak_obj(ak))


def expected_size(spec) -> int:
    """block size from the CONFIGURATION: `max(map_size, 10 * population_size)` in a simulation, the given size otherwise"""
    return max(spec["size"], 10 * spec["pop"]) if spec["mode"] == "sim" else spec["size"]


def expected_tstr(spec, steps: int) -> str:
    """str(clock()) after `steps` steps, from the CONFIGURATION (start 0 / step 1; 2021-03-01 / 1.5 days) or the scripted clock;
    -1 = the creation time of the initial population (one step before the start)"""
    import pandas as pd
    if spec["mode"] == "sim":
        if spec["clock"] == "simple":
            return str(0 + 1 * steps)
        return str(pd.Timestamp(year=2021, month=3, day=1) + steps * pd.Timedelta(days=1.5))
    if spec["clock"] == "simple":
        return str(3 + 2 * steps)
    return str(pd.Timestamp("2019-12-31 18:00:00") + pd.Timedelta(hours=36) * steps)


class Env:
    """the running stack; see module docstring"""

    def __init__(self, spec: dict, seed_override=None):
        impl.load()
        import pandas as pd
        self.pd = pd
        self.spec = spec
        self.size = spec["size"]
        self.crn = spec["crn"]
        self.steps = 0
        self.dup = None
        self.sim = None
        seed = list(seed_override if seed_override is not None else spec["seed"])
        self.seed_cfg = seed
        self.seed_str = str(seed[0]) + (str(seed[1]) if seed[1] is not None else "")
        if spec["mode"] == "sim":
            self._mk_sim(seed)
        else:
            self._mk_direct()

    # ------------------------------------------------------------------ real simulation
    def _mk_sim(self, seed):
        pd = self.pd
        from vivarium import Component
        from vivarium.framework.engine import SimulationContext
        spec = self.spec
        names = [s[0] for s in spec["streams"]]
        crn = self.crn
        env = self
        owners = list(spec.get("owners") or [0] * len(names))        # which component asks for the stream
        forms = list(spec.get("forms") or ["pos"] * len(names))      # how it asks: get_stream(n) / (n, False) / keywords
        init_use = bool(spec.get("init_use"))
        self.init_log = []

        done = []

        def dup_attempt(builder):
            """the component that is set up LAST asks for the first decision point again (whoever got it): must be refused"""
            done.append(1)
            if len(done) == 2 and names:
                try:
                    builder.randomness.get_stream(names[0])
                    env.dup = "ok"
                except Exception as e:  # noqa: BLE001
                    env.dup = exc_class(e)

        def ask(builder, n, form):
            if form == "pos2":
                return builder.randomness.get_stream(n, False)
            if form == "kw":
                return builder.randomness.get_stream(decision_point=n, initializes_crn_attributes=False)
            return builder.randomness.get_stream(n)

        class Probe(Component):
            @property
            def name(self):
                return "stream_probe"

            @property
            def columns_created(self):
                return list(KEY_COLS) if crn else ["probe_col"]

            def setup(self, builder):
                self.streams = {k: ask(builder, n, forms[k]) for k, n in enumerate(names) if owners[k] == 0}
                self.tracked_view = builder.population.get_view(["tracked"])
                dup_attempt(builder)
                self.init_stream = builder.randomness.get_stream("crn.init", initializes_crn_attributes=True)
                self.register = builder.randomness.register_simulants
                self.clock = builder.time.clock()
                self.creator = builder.population.get_simulant_creator()

            def on_initialize_simulants(self, pop_data):
                if crn:
                    d = self.init_stream.get_draw(pop_data.index)
                    df = pd.DataFrame({"entrance_time": pop_data.creation_time, "age": d.values * 100.0},
                                      index=pop_data.index)
                    self.register(df)
                else:
                    df = pd.DataFrame({"probe_col": 1}, index=pop_data.index)
                if init_use and len(pop_data.index) and env.all_streams:
                    # first use of an ordinary stream INSIDE an initializer (LESSONS.md 7), reversed request, keyword form
                    st = env.all_streams[0]
                    rec = {"t": str(self.clock()), "steps": env.steps if env.sim_ready else -1, "req": [int(x) for x in pop_data.index[::-1]]}
                    try:
                        rec["ks"], rec["block"] = env.block(st, "init")
                        d = st.get_draw(index=pop_data.index[::-1], additional_key="init")
                        rec.update(r="ok", idx=[int(x) for x in d.index], hx=[fhex(x) for x in d.values])
                        rec["pos"] = [int(x) for x in st.index_map[pop_data.index[::-1]]]
                    except Exception as e:  # noqa: BLE001
                        rec["r"] = exc_class(e)
                    env.init_log.append(rec)
                self.population_view.update(df)

        class Other(Component):
            """a second component that asks for some of the decision points"""
            @property
            def name(self):
                return "other_stream_user"

            def setup(self, builder):
                self.streams = {k: ask(builder, n, forms[k]) for k, n in enumerate(names) if owners[k] == 1}
                dup_attempt(builder)

        cfg = {"population": {"population_size": spec["pop"]},
               "randomness": {"map_size": spec["size"], "key_columns": list(KEY_COLS) if crn else [],
                              "random_seed": seed[0], "additional_seed": seed[1]}}
        plug = None
        if spec["clock"] == "simple":
            cfg["time"] = {"start": 0, "end": 1000, "step_size": 1}
            plug = {"required": {"clock": {"controller": "vivarium.framework.time.SimpleClock",
                                           "builder_interface": "vivarium.framework.time.TimeInterface"}}}
        else:
            cfg["time"] = {"start": {"year": 2021, "month": 3, "day": 1}, "end": {"year": 2030, "month": 1, "day": 1},
                           "step_size": 1.5}
        SimulationContext._clear_context_cache()
        self.probe = Probe()
        self.other = Other()
        self.all_streams = []
        self.sim_ready = False
        comps = [self.other, self.probe] if spec.get("other_first") else [self.probe, self.other]
        self.sim = SimulationContext(components=comps, configuration=cfg, plugin_configuration=plug,
                                     logging_verbosity=0)
        self.sim.setup()
        merged = dict(self.probe.streams)
        merged.update(self.other.streams)
        self.all_streams = [merged[k] for k in range(len(names))]
        self.sim.initialize_simulants()
        self.sim_ready = True
        self.streams = self.all_streams
        self.init_stream = self.probe.init_stream
        self.clock = self.probe.clock
        self.index_map = self.streams[0].index_map if self.streams else self.init_stream.index_map
        self.size = len(self.index_map)
        self.labels = [int(x) for x in self.sim.get_population().index]
        self.stream_seeds = [self.seed_str] * len(self.streams)

    # ------------------------------------------------------------------ bare objects, scripted clock
    def _mk_direct(self):
        pd = self.pd
        from vivarium.framework.randomness.index_map import IndexMap
        from vivarium.framework.randomness.stream import RandomnessStream
        spec = self.spec
        self._t = 0
        if spec["clock"] == "simple":
            self.clock = lambda: 3 + 2 * self._t
        else:
            t0 = pd.Timestamp("2019-12-31 18:00:00")
            self.clock = lambda: t0 + pd.Timedelta(hours=36) * self._t
        self.index_map = IndexMap(list(KEY_COLS) if self.crn else [], self.size)
        self.streams, self.stream_seeds = [], []
        for name, so in spec["streams"]:
            sd = self.seed_str if so is None else str(so)
            self.stream_seeds.append(sd)
            self.streams.append(RandomnessStream(name, self.clock, sd, self.index_map))
        self.init_stream = RandomnessStream("crn.init", self.clock, self.seed_str, self.index_map,
                                            initializes_crn_attributes=True)
        self.labels = []
        self.init_log = []
        self._register(list(spec.get("labels", [])))

    def _register(self, labels):
        pd = self.pd
        import numpy as np
        labels = [l for l in labels if l not in self.labels]
        if self.crn and labels:
            phi = 0.6180339887498949
            df = pd.DataFrame({"entrance_time": np.array(labels, dtype="int64"),
                               "age": np.array([(l * phi) % 1.0 * 100.0 for l in labels], dtype="float64")},
                              index=pd.Index(np.array(labels, dtype="int64")))
            self.index_map.update(df, self.clock())
        self.labels += labels

    # ------------------------------------------------------------------ operations
    def step(self):
        self.steps += 1
        if self.sim is not None:
            self.sim.step()
        else:
            self._t += 1

    def birth(self, n_or_labels):
        if self.sim is not None:
            self.probe.creator(int(n_or_labels), {"sim_state": "time_step"})
            self.labels = [int(x) for x in self.sim.get_population().index]
        else:
            self._register(list(n_or_labels))

    def untrack(self, labels):
        """mark simulants untracked (simulation only): they stay registered with the randomness system"""
        import numpy as np
        if self.sim is not None and labels:
            self.probe.tracked_view.update(self.pd.Series(False, index=self.pd.Index(np.array(labels, dtype="int64")), name="tracked"))

    def tstr(self) -> str:
        return str(self.clock())

    def positions(self):
        """[labels, positions] of every registered simulant as the real index map answers; None when it refuses"""
        import numpy as np
        if not self.labels:
            return [[], []]
        try:
            p = self.index_map[self.pd.Index(np.array(self.labels, dtype="int64"))]
            return [list(self.labels), [int(x) for x in p]]
        except Exception:  # noqa: BLE001
            return None

    def block(self, stream, ak):
        """(seed string, numerators) of the block this stream reads now, computed with the real `_key` / `get_hash`
        and numpy exactly as `get_draw` does"""
        import numpy as np
        from vivarium.framework.randomness.stream import get_hash
        ks = stream._key(ak)
        raw = np.random.RandomState(seed=get_hash(ks)).random_sample(len(stream.index_map))
        return ks, [int(x) for x in (raw * float(TWO53)).astype("int64")]

    def index(self, req, kind="int64"):
        """the request as a pandas Index of the given kind (falls back to int64 where the kind cannot hold the labels)"""
        import numpy as np
        pd = self.pd
        n = len(req)
        if kind == "range" and n and req == list(range(req[0], req[0] + n)):
            return pd.RangeIndex(req[0], req[0] + n)
        if kind == "range" and n > 1 and req == list(range(req[0], req[0] - n, -1)):
            return pd.RangeIndex(req[0], req[0] - n, -1)
        if kind in ("int32", "uint64") and n:
            return pd.Index(np.array(req, dtype=kind))
        if kind == "int8" and n and max(req) < 128:
            return pd.Index(np.array(req, dtype="int8"))
        if kind == "named":
            return pd.Index(np.array(req, dtype="int64"), name="simulant")
        if kind == "pop" and self.sim is not None and n:
            idx = self.sim.get_population(untracked=True).index       # the population's own index object
            if req == [int(x) for x in idx]:
                return idx
        return pd.Index(np.array(req, dtype="int64"))

    def close(self):
        self.sim = None


def blocks_lines(obs_blocks: dict, seen: set, ks: str):
    """driver line registering block `ks` once"""
    if ks in seen or ks not in obs_blocks:
        return []
    seen.add(ks)
    return [f"block {hx(ks)} " + (",".join(map(str, obs_blocks[ks])) or "-")]


def env_prelude(spec, obs) -> list[str]:
    L = [f"size {obs['size']}", f"crn {1 if spec['crn'] else 0}"]
    return L


def pos_line(snapshot) -> str:
    labels, ps = snapshot
    return f"pos {','.join(map(str, labels)) or '-'} {','.join(map(str, ps)) or '-'}"


def ascii_ok(s: str) -> bool:
    return all(32 <= ord(c) < 127 for c in s)


def is_pow2(fr: Fraction) -> bool:
    n, d = fr.numerator, fr.denominator
    return n > 0 and (n & (n - 1)) == 0 and (d & (d - 1)) == 0


def dyadic_unit(vals: list[Fraction]) -> Fraction:
    """largest power of two u (≤ 1) such that every value is an integer multiple of u"""
    e = 0
    for v in vals:
        d = v.denominator
        if d & (d - 1):
            raise ValueError("not dyadic")
        e = max(e, d.bit_length() - 1)
    return Fraction(1, 1 << e)
