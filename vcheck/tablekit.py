"""Shared machinery of the state-table checks C11 / C12 / C13.

* exact value tokens (`i5`, `f-5/2` = -5/4, `sx`, `b1`, `t<ns>`, `n`) and canonical table dumps
  (rows + columns with a canonical dtype name and exact cell tokens);
* a small predicate AST rendered as a pandas query string, as the driver's reverse-Polish token and
  evaluated by a reference interpreter (used by the oracles, independent of the Lean model);
* `run_script(case)`: drives a REAL `SimulationContext` / `PopulationManager` + views.  The case is a
  script of actions attached to hooks of probe components (initializers, listeners on the four
  time-step channels) or executed from outside with a forced lifecycle state; every action and what
  it observed is appended to one log, from which the model lines are produced;
* `Workers`: persistent worker subprocesses per PYTHONHASHSEED (`python -m vcheck.props.c11_worker`).
"""
from __future__ import annotations

import json
import os
import subprocess
import sys

from . import impl, paths

DT = {"int": "int64", "flt": "float64", "str": "str", "bool": "bool", "time": "datetime64[ns]", "i32": "int32", "f32": "float32"}
CATS = ["x", "y", "z", "tracked_x", ""]       # the one set of categories of every categorical column / update
DAY = 86_400_000_000_000
T0 = 1_577_836_800_000_000_000          # 2020-01-01 in ns
PHASES = ["time_step__prepare", "time_step", "time_step__cleanup", "collect_metrics"]


# --------------------------------------------------------------------------------------- values
def ftok(x: float) -> str:
    num, den = float(x).as_integer_ratio()
    return f"f{num}/{den.bit_length() - 1}"


def tok(v) -> str:
    """exact token of a pandas / numpy / python scalar"""
    import numpy as np
    import pandas as pd
    if v is None or v is pd.NaT or v is pd.NA:
        return "n"
    if isinstance(v, (bool, np.bool_)):
        return "b1" if v else "b0"
    if isinstance(v, (int, np.integer)):
        return f"i{int(v)}"
    if isinstance(v, (float, np.floating)):
        if v != v:
            return "n"
        return ftok(float(v))
    if isinstance(v, str):
        return "s" + v
    if isinstance(v, pd.Timestamp):
        return f"t{v.value}"
    if isinstance(v, np.datetime64):
        if np.isnat(v):
            return "n"
        return f"t{int(v.astype('datetime64[ns]').astype('int64'))}"
    return "?" + type(v).__name__


def untok(t: str):
    """python value of a token (floats exactly: the tokens are dyadic)"""
    import pandas as pd
    k, body = t[0], t[1:]
    if k == "i":
        return int(body)
    if k == "f":
        a, b = body.split("/")
        return int(a) / float(2 ** int(b))
    if k == "s":
        return body
    if k == "b":
        return body == "1"
    if k == "t":
        return pd.Timestamp(int(body))
    if k == "n":
        return None
    raise ValueError(t)


def norm_tok(t: str) -> str:
    if t[0] == "f":
        a, b = t[1:].split("/")
        a, b = int(a), int(b)
        while b > 0 and a % 2 == 0:
            a //= 2
            b -= 1
        return f"f{a}/{b}"
    return t


def tok_num(t: str):
    """exact number (Fraction) of an int / float token, else None"""
    from fractions import Fraction
    if t[0] == "i":
        return Fraction(int(t[1:]))
    if t[0] == "f":
        a, b = t[1:].split("/")
        return Fraction(int(a), 2 ** int(b))
    if t in ("b0", "b1"):
        return Fraction(int(t[1]))          # Python: True == 1, False == 0
    return None


def same_value(a: str, b: str) -> bool:
    """equality of two cell tokens up to int/float representation (used only while a creation is in progress)"""
    if a == b:
        return True
    x, y = tok_num(a), tok_num(b)
    return x is not None and y is not None and x == y


def mk_array(tokens, dtype, none_null=False):
    """`none_null`: nulls of an object column are `None` (the usual "nothing yet" of such a column) instead of NaN"""
    import numpy as np
    import pandas as pd
    vals = [untok(t) for t in tokens]
    if dtype == "obj" and none_null:
        return pd.Series(vals, dtype=object)
    if dtype == "time":
        return pd.Series(np.array([np.datetime64("NaT") if v is None else np.datetime64(v.value, "ns") for v in vals],
                                  dtype="datetime64[ns]"))
    if dtype in ("flt", "f32"):
        return pd.Series([float("nan") if v is None else v for v in vals], dtype=DT[dtype])
    if dtype == "cat":
        return pd.Series(vals, dtype=pd.CategoricalDtype(CATS))
    if dtype == "obj":
        return pd.Series([float("nan") if v is None else v for v in vals], dtype=object)
    return pd.Series(vals, dtype=DT[dtype])


def progression(rows):
    """the step of the arithmetic progression the labels form (>= 2 labels, constant non-zero step), else None"""
    rows = list(rows)
    if len(rows) < 2:
        return None
    d = rows[1] - rows[0]
    if d == 0 or any(b - a != d for a, b in zip(rows, rows[1:])):
        return None
    return d


def range_spec(rows, kind="range"):
    """(start, stop, step) of the RangeIndex OBJECT that stands for the labels, or None when they are no arithmetic
    progression. `range`: the object slicing produces (`index[::-1]`, `index[:k][::-1]`, `index[a:b:c]`: stop = last + step);
    `range-tight`: the nearest stop (last + sign(step)). A descending range that reaches simulant 0 has a NEGATIVE stop
    either way; one label is `RangeIndex(r, r + 1)` / the descending `RangeIndex(r, r - 1, -1)`; no label is
    `RangeIndex(0)` / the descending `RangeIndex(0, 0, -1)`."""
    rows = list(rows)
    tight = kind == "range-tight"
    if not rows:
        return (0, 0, -1) if tight else (0, 0, 1)
    if len(rows) == 1:
        return (rows[0], rows[0] - 1, -1) if tight else (rows[0], rows[0] + 1, 1)
    d = progression(rows)
    if d is None:
        return None
    return (rows[0], rows[-1] + ((1 if d > 0 else -1) if tight else d), d)


def mk_index(rows, kind="int64", rspec=None):
    """the index kinds a component may hand over: an int64 Index, a RangeIndex OBJECT (kinds `range` / `range-tight`,
    whenever the labels form an arithmetic progression - ascending, strided, descending, one label, none; `rspec` =
    explicit (start, stop, step) that must denote exactly `rows`), an int32 Index, a default (object) empty Index"""
    import pandas as pd
    rows = list(rows)
    if kind in ("range", "range-tight"):
        spec = tuple(rspec) if rspec is not None and len(rspec) == 3 and rspec[2] != 0 and list(range(*rspec)) == rows else range_spec(rows, kind)
        if spec is not None:
            idx = pd.RangeIndex(*spec)
            assert isinstance(idx, pd.RangeIndex) and idx.tolist() == rows, (spec, rows)
            return idx
    if kind == "int32":
        return pd.Index(rows, dtype="int32")
    if kind == "obj-empty" and not rows:
        return pd.Index([])
    return pd.Index(rows, dtype="int64")


def range_of(index):
    """[start, stop, step] when the object handed over is a RangeIndex, else None"""
    import pandas as pd
    return [int(index.start), int(index.stop), int(index.step)] if isinstance(index, pd.RangeIndex) else None


def range_shape(r, n=None) -> str:
    """distribution tag of a range request"""
    start, stop, step = r
    labels = range(start, stop, step)
    if len(labels) == 0:
        return "empty" + ("-descending" if step < 0 else "")
    if len(labels) == 1:
        return "single" + ("-descending" if step < 0 else "") + ("-negative-stop" if stop < 0 else "")
    if step > 0:
        return "ascending" + ("" if step == 1 else "-strided")
    return ("descending" + ("" if step == -1 else "-strided") + ("-to-0" if labels[-1] == 0 else "-above-0")
            + ("-everybody" if n is not None and step == -1 and start == n - 1 and labels[-1] == 0 else ""))


def rows_tok(rows, rng=None) -> str:
    """driver token of a request / update index: the labels, or the range OBJECT that was handed over"""
    if rng is not None:
        return f"r{rng[0]}:{rng[1]}:{rng[2]}"
    return ",".join(map(str, rows)) or "-"


def mk_series(tokens, dtype, rows, name=None, ikind="int64", rspec=None, none_null=False):
    s = mk_array(tokens, dtype, none_null)
    s.index = mk_index(rows, ikind, rspec)
    s.name = name
    return s


def canon_dtype(s) -> str:
    import pandas as pd
    d = s.dtype
    ds = str(d)
    if ds == "int64":
        return "int"
    if ds == "float64":
        return "flt"
    if ds == "bool":
        return "bool"
    if ds == "datetime64[ns]":
        return "time"
    if ds == "int32":
        return "i32"
    if ds == "float32":
        return "f32"
    if isinstance(d, pd.CategoricalDtype):
        return "cat" if list(d.categories) == CATS else ds
    if isinstance(d, pd.StringDtype):
        return "str"
    if ds == "object":
        nn = [v for v in s.tolist() if not (v is None or (isinstance(v, float) and v != v))]
        return "str" if nn and all(isinstance(v, str) for v in nn) else "obj"
    return ds


def canon_frame(df) -> dict:
    """rows in frame order; columns in frame order as [name, dtype, tokens]"""
    cols = []
    for j, c in enumerate(df.columns):
        s = df.iloc[:, j]
        cols.append([str(c), canon_dtype(s), [tok(v) for v in s.tolist()]])
    return {"rows": [int(r) for r in df.index.tolist()], "cols": cols}


def sort_cols(t: dict) -> dict:
    return {"rows": t["rows"], "cols": sorted(t["cols"], key=lambda c: c[0])}


def parse_table(rows_tok: str, cols_tok: str) -> dict:
    rows = [] if rows_tok == "-" else [int(x) for x in rows_tok.split(",")]
    cols = []
    if cols_tok != "-":
        for c in cols_tok.split(";"):
            name, dt, vs = c.split(":")
            cols.append([name, dt, [] if vs == "-" else vs.split(",")])
    return {"rows": rows, "cols": cols}


def table_diff(a: dict, b: dict, dtypes=True, exact=True, order=False) -> str | None:
    """None when the two canonical tables agree (columns sorted by name unless `order`)"""
    if a is None or b is None:
        return None if a is b else f"one side has no table: {a} vs {b}"
    if a["rows"] != b["rows"]:
        return f"rows {a['rows']} vs {b['rows']}"
    ca, cb = (a["cols"], b["cols"]) if order else (sort_cols(a)["cols"], sort_cols(b)["cols"])
    if [c[0] for c in ca] != [c[0] for c in cb]:
        return f"columns {[c[0] for c in ca]} vs {[c[0] for c in cb]}"
    for x, y in zip(ca, cb):
        if dtypes and x[1] != y[1] and {x[1], y[1]} != {"str", "obj"}:     # (an object column reads as `str` when it holds strings, as `obj` when all its cells are null)
            return f"dtype of {x[0]}: {x[1]} vs {y[1]}"
        xs, ys = [norm_tok(t) for t in x[2]], [norm_tok(t) for t in y[2]]
        if len(xs) != len(ys) or not all((p == q) if exact else same_value(p, q) for p, q in zip(xs, ys)):
            return f"values of {x[0]}: {xs} vs {ys}"
    return None


def cell(t: dict, r: int, c: str):
    for name, _, vals in t["cols"]:
        if name == c:
            return vals[t["rows"].index(r)] if r in t["rows"] else None
    return None


def col_of(t: dict, c: str):
    for col in t["cols"]:
        if col[0] == c:
            return col
    return None


# --------------------------------------------------------------------------------------- predicates
OPS = {"eq": "==", "ne": "!=", "lt": "<", "le": "<=", "gt": ">", "ge": ">="}


def _const(t: str) -> str:
    v = untok(t)
    if t[0] == "s":
        return repr(v)
    if t[0] == "b":
        return "True" if v else "False"
    if t[0] == "t":
        return repr(str(v))
    return repr(v)


def pred_query(p, top=True) -> str:
    """pandas query string; compound children are parenthesised, the top level is not (the way a
    user would write `a > 2 or b < 1` - the shape that exposed F23)"""
    if p[0] == "T":
        return ""
    if p[0] == "a":
        return f"{p[1]} {OPS[p[2]]} {_const(p[3])}"
    word = " and " if p[0] == "and" else " or "
    s = word.join(pred_query(q, False) if q[0] == "a" else "(" + pred_query(q, False) + ")" for q in p[1:3])
    return s


def pred_rpn(p) -> str:
    if p[0] == "T":
        return "T"
    if p[0] == "a":
        return f"{p[1]},{p[2]},{p[3]}"
    return pred_rpn(p[1]) + ";" + pred_rpn(p[2]) + ";" + ("&" if p[0] == "and" else "|")


def pred_cols(p) -> set:
    if p[0] == "T":
        return set()
    if p[0] == "a":
        return {p[1]}
    return pred_cols(p[1]) | pred_cols(p[2])


def pred_eval(p, t: dict, r: int) -> bool:
    """reference semantics over a canonical table (null satisfies only !=)"""
    if p[0] == "T":
        return True
    if p[0] == "and":
        return pred_eval(p[1], t, r) and pred_eval(p[2], t, r)
    if p[0] == "or":
        return pred_eval(p[1], t, r) or pred_eval(p[2], t, r)
    v, op, c = cell(t, r, p[1]), p[2], p[3]
    if v is None or v == "n":
        return op == "ne"
    a, b = tok_num(v), tok_num(c)
    if a is None or b is None:
        if v[0] == "t" and c[0] == "t":
            a, b = int(v[1:]), int(c[1:])
        else:
            a, b = v[1:], c[1:]
            if v[0] != c[0]:
                return op == "ne"
    return {"eq": a == b, "ne": a != b, "lt": a < b, "le": a <= b, "gt": a > b, "ge": a >= b}[op]


# --------------------------------------------------------------------------------------- update specs
def build_update(spec):
    """the object a component passes to PopulationView.update (`ikind`: index kind, `xkind`: what non-pandas object)"""
    import numpy as np
    import pandas as pd
    if spec["form"] == "X":
        cols = {c[0]: [untok(t) for t in c[2]] for c in spec["cols"]}
        first = next(iter(cols.values()), [])
        return {"dict": cols, "list": list(first), "tuple": tuple(first), "ndarray": np.array(first, dtype=object),
                "none": None, "scalar": 3}[spec.get("xkind", "dict")]
    rows, ik, rs, nn = spec["rows"], spec.get("ikind", "int64"), spec.get("rspec"), spec.get("nullobj") == "none"
    if spec["form"] == "S":
        name, dt, toks = spec["cols"][0]
        return mk_series(toks, dt, rows, name, ik, rs, nn)
    idx = mk_index(rows, ik, rs)
    data = {}
    for name, dt, toks in spec["cols"]:
        data[name] = mk_series(toks, dt, rows, name, ik, rs, nn)
    return pd.DataFrame(data, index=idx) if data else pd.DataFrame(index=idx)


def upd_line(spec, uncaught=False) -> str:
    head = ("updx " if uncaught else "upd ") + str(spec["view"])
    if spec["form"] == "X":
        return head + " X"
    rows = rows_tok(spec["rows"], spec.get("range"))
    if spec["form"] == "S":
        name, dt, toks = spec["cols"][0]
        return f"{head} S {name if name is not None else '~'} {dt} {rows} {','.join(toks) or '-'}"
    cols = ";".join(f"{n}:{dt}:{','.join(toks) or '-'}" for n, dt, toks in spec["cols"]) or "-"
    return f"{head} D {rows} {cols}"


def _mutate(df):
    """overwrite the first column of a frame / the values of a series in place"""
    import pandas as pd
    consts = {"int": 7777, "flt": 7777.5, "str": "mutated", "bool": None, "time": pd.Timestamp(86_400_000_000_000)}
    try:
        if isinstance(df, pd.Series):
            if len(df):
                k = canon_dtype(df)
                df.iloc[:] = (~df.astype(bool)).values if k in ("bool", "obj") else consts.get(k, 0)
        elif df.shape[0] and df.shape[1]:
            k = canon_dtype(df.iloc[:, 0])
            df.iloc[:, 0] = (~df.iloc[:, 0].astype(bool)).values if k in ("bool", "obj") else consts.get(k, 0)
    except Exception:  # noqa: BLE001 - mutation of OUR copy failing is not an observation
        pass


# --------------------------------------------------------------------------------------- the script runner
def run_script(case: dict) -> dict:
    """Run one script on the real code. Case layout:

    comps:   [{name, cols: [[name, dtype]] (may be empty), views: [{id, cols, q}], requires: [col],
               reg: "builder" (builder.population.initializes_simulants) | "component" (on_initialize_simulants +
               columns_created), ledgers: [names of plain objects registering a column-less initializer]}]
    pop:     initial population size;  clock: {kind: simple|datetime, step: int (ticks / days)}
    init:    {comp: [action]}      what the component's initializer does at the initial creation
    steps:   number of real `sim.step()` calls;  hooks: {"<step>:<phase>:<comp>": [action]}
    ops:     [action] executed from outside after the steps (lifecycle state forced into a time-step state)
    action:  {"a": "upd", spec…, catch: bool, mutate: bool} | {"a": "get", view, idx, q, mutate} |
             {"a": "sub", id, parent, cols} | {"a": "create", k, comp, fills: {comp: [action]}}
    """
    impl.load()
    import pandas as pd
    from vivarium import Component
    from vivarium.framework.engine import SimulationContext

    log = []
    held = []
    views = {}
    state = {"step": -1, "fills": None, "creation": 0, "sim": None, "stop": False}

    def dump():
        sim = state["sim"]
        mgr = sim._population
        if mgr._population is None:
            return None
        return sort_cols(canon_frame(mgr.get_population(True)))

    def clock_now():
        c = state["sim"]._clock
        return {"clock": _time(c.time), "step_size": _dur(c.step_size)}

    def flags():
        mgr = state["sim"]._population
        return [bool(mgr.creating_initial_population), bool(mgr.adding_simulants)]

    def check_held(pos):
        for h in held:
            if h[3] is None and not h[1].equals(h[2]):
                h[3] = pos

    def do(action, comp=None, event=None):
        try:
            do_(action, comp, event)
        finally:
            check_held(len(log) - 1)

    def do_(action, comp=None, event=None):
        kind = action["a"]
        if kind in ("upd", "get") and action["view"] not in views or kind == "sub" and action["parent"] not in views:
            log.append({"t": "skip", "why": "view does not exist (shrunk case)"})
            return
        if kind == "upd":
            ent = {"t": "upd", "spec": {k: action[k] for k in ("view", "form", "rows", "cols")}, "nulls": action.get("nulls"),
                   "caught": bool(action.get("catch", True)), "comp": comp,
                   "forms": [action.get("ikind", "int64"), action.get("xkind", "dict") if action["form"] == "X" else "-"]}
            log.append(ent)
            try:
                u = build_update(action)
                if hasattr(u, "index") and hasattr(u.index, "dtype"):
                    ent["forms"][0] = f"{type(u.index).__name__}:{u.index.dtype}"
                    if range_of(u.index) is not None and all(r >= 0 for r in action["rows"]):
                        ent["spec"]["range"] = range_of(u.index)       # the update's index is a range OBJECT
                views[action["view"]].update(u)
                ent["out"] = "ok"
                if action.get("mutate"):
                    _mutate(u)
            except Exception as e:  # noqa: BLE001
                ent["out"] = "err:" + type(e).__name__
                ent["table"], ent["flags"] = dump(), flags()
                if not ent["caught"]:
                    raise
            ent["table"], ent["flags"] = dump(), flags()
        elif kind == "get":
            derived = ""
            if action["idx"] == "event" or isinstance(action["idx"], dict):
                # an index OBJECT of the framework - the one handed to the listener (`event.index`), the index of the whole
                # population / of the tracked population - possibly sliced the way components do (`index[::-1]`, `index[:k][::-1]`)
                src = "event" if action["idx"] == "event" else action["idx"].get("from", "event")
                if src == "event":
                    index = event.index if event is not None else mk_index([])
                elif state["sim"]._population._population is None:
                    index = mk_index([])
                else:
                    index = state["sim"].get_population(src != "pop-tracked").index
                derived = src + "-index"
                for a, b, c in ([] if action["idx"] == "event" else action["idx"].get("slices", [])):
                    index = index[slice(a, b, c)]
                    derived += f"[{'' if a is None else a}:{'' if b is None else b}:{'' if c is None else c}]"
                derived += ":"
            else:
                index = mk_index(action["idx"], action.get("ikind", "int64"), action.get("rspec"))
            ent = {"t": "get", "view": action["view"], "idx": [int(x) for x in index.tolist()], "q": action["q"], "comp": comp,
                   "range": range_of(index), "derived": derived[:-1] or None,
                   "forms": [derived + f"{type(index).__name__}:{index.dtype}",
                             "no-query-arg" if action["q"] == ["T"] and action.get("noq") else "query-arg"]}
            log.append(ent)
            try:
                if action["q"] == ["T"] and action.get("noq"):
                    got = views[action["view"]].get(index)
                elif action.get("kw"):
                    got = views[action["view"]].get(index=index, query=pred_query(action["q"]))
                else:
                    got = views[action["view"]].get(index, pred_query(action["q"]))
                ent["out"] = "ok"
                ent["frame"] = canon_frame(got) if views[action["view"]]._columns else sort_cols(canon_frame(got))
                if action.get("mutate"):
                    _mutate(got)
                    ent["mutated"] = True
                held.append([len(log) - 1, got, got.copy(deep=True), None])
            except Exception as e:  # noqa: BLE001
                ent["out"] = "err:" + type(e).__name__
            ent["table"], ent["flags"] = dump(), flags()
        elif kind == "sub":
            ent = {"t": "sub", "id": action["id"], "parent": action["parent"], "cols": action["cols"], "comp": comp}
            log.append(ent)
            try:
                arg = action["cols"][0] if action.get("as_str") else list(action["cols"])
                views[action["id"]] = views[action["parent"]].subview(arg)
                ent["out"] = "ok"
            except Exception as e:  # noqa: BLE001
                ent["out"] = "err:" + type(e).__name__
            ent["table"], ent["flags"] = dump(), flags()
        elif kind == "view":                                       # a view requested after setup (allowed in population_creation)
            ent = {"t": "view", "id": action["id"], "cols": action["cols"], "q": action["q"], "comp": comp}
            log.append(ent)
            try:
                arg = action["cols"][0] if action.get("as_str") else list(action["cols"])
                views[action["id"]] = comps[comp or case["comps"][0]["name"]].pop_iface.get_view(arg, pred_query(action["q"]))
                ent["out"] = "ok"
            except Exception as e:  # noqa: BLE001
                ent["out"] = "err:" + type(e).__name__
        elif kind == "pop":                                        # SimulationContext / PopulationManager.get_population
            sim = state["sim"]
            untracked = bool(action.get("untracked", True))
            ent = {"t": "pop", "untracked": untracked, "via": action.get("via", "sim"), "comp": comp}
            log.append(ent)
            try:
                if action.get("via") == "default":
                    got = sim.get_population()
                    ent["untracked"] = True                        # the engine's default
                elif action.get("via") == "manager":
                    got = sim._population.get_population(untracked)
                else:
                    got = sim.get_population(untracked)
                ent["out"] = "ok"
                ent["frame"] = sort_cols(canon_frame(got))
                if action.get("mutate"):
                    _mutate(got)
                    ent["mutated"] = True
                held.append([len(log) - 1, got, got.copy(deep=True), None])
            except Exception as e:  # noqa: BLE001
                ent["out"] = "err:" + type(e).__name__
            ent["table"], ent["flags"] = dump(), flags()
        elif kind == "create":
            ent = {"t": "create", "k": action["k"], "comp": comp, "before": dump(), "user": action.get("user")}
            ent.update(clock_now())
            log.append(ent)
            outer = state["fills"]
            state["fills"] = action.get("fills") or {}
            state["creation"] += 1
            ent["no"] = state["creation"]
            try:
                creator = comps[action.get("comp") or comp or case["comps"][0]["name"]].creator
                new = creator(action["k"], action["user"]) if action.get("user") is not None else creator(action["k"])
                ent["out"] = "ok"
                ent["labels"] = [int(x) for x in new.tolist()]
            except Exception as e:  # noqa: BLE001
                ent["out"] = "err:" + type(e).__name__
                state["stop"] = True
            finally:
                state["fills"] = outer
            log.append({"t": "endcreate", "no": ent["no"], "ok": ent["out"] == "ok", "table": dump(), "flags": flags()})
        else:
            raise ValueError(kind)

    class Probe(Component):
        def __init__(self, spec):
            super().__init__()
            self.spec = spec

        @property
        def name(self):
            return self.spec["name"]

        def setup(self, builder):
            self.creator = builder.population.get_simulant_creator()
            self.pop_iface = builder.population
            self.clock = builder.time.clock()
            made = [c for c, _ in self.spec["cols"]]
            req = list(self.spec.get("requires", []))
            if self.spec.get("reg", "builder") == "builder":       # ("component": registered by Component itself, below)
                if made:
                    builder.population.initializes_simulants(self.initialize, creates_columns=made, requires_columns=req)
                elif req:                                            # an initializer that creates no column (type "null")
                    builder.population.initializes_simulants(self.initialize, requires_columns=req)
                else:
                    builder.population.initializes_simulants(self.initialize)
            for name in self.spec.get("ledgers", []):               # plain named objects, bound method, no columns
                builder.population.initializes_simulants(Ledger(name).initialize)
            for v in self.spec.get("views", []):
                if v.get("auto"):
                    continue                                        # the Component's own population_view (ProbeC)
                cols = v["cols"][0] if v.get("as_str") and len(v["cols"]) == 1 else list(v["cols"])
                if v["q"] == ["T"] and v.get("noq"):
                    views[v["id"]] = builder.population.get_view(cols)
                else:
                    views[v["id"]] = builder.population.get_view(cols, pred_query(v["q"]))
            for ph in PHASES:
                builder.event.register_listener(ph, self._listener(ph), priority=self.spec.get("priority", 5))

        def _listener(self, phase):
            def on_event(event):
                acts = case.get("hooks", {}).get(f"{state['step']}:{phase}:{self.name}")
                if not acts or state["stop"]:
                    return
                log.append({"t": "event", "phase": phase, "step": state["step"], "comp": self.name,
                            "time": tok(event.time) if not isinstance(event.time, (int, float)) else f"i{int(event.time)}",
                            "step_size": _dur(event.step_size), "clock": _time(self.clock())})
                for a in acts:
                    do(a, self.name, event)
            return on_event

        def initialize(self, data):
            ent = {"t": "init", "comp": self.name, "no": state["creation"], "index": [int(x) for x in data.index.tolist()],
                   "time": _time(data.creation_time), "window": _dur(data.creation_window),
                   "user": dict(data.user_data), "table": dump(), "flags": flags()}
            log.append(ent)
            fills = state["fills"] if state["fills"] is not None else case.get("init", {})
            for a in fills.get(self.name, []):
                do(a, self.name)

    class ProbeC(Probe):
        """the same probe, registered the Component way: it overrides `on_initialize_simulants` and declares
        `columns_created` (possibly empty) / `initialization_requirements`"""

        @property
        def columns_created(self):
            return [c for c, _ in self.spec["cols"]]

        @property
        def initialization_requirements(self):
            return {"requires_columns": list(self.spec.get("requires", [])), "requires_values": [], "requires_streams": []}

        def on_initialize_simulants(self, pop_data):
            self.initialize(pop_data)

        # the view a Component gets without asking: get_view(columns_created + columns_required, population_view_query)
        @property
        def columns_required(self):
            a = self._auto()
            return None if a is None else a.get("required")

        @property
        def population_view_query(self):
            a = self._auto()
            return None if a is None or a["q"] == ["T"] else pred_query(a["q"])

        def _auto(self):
            return next((v for v in self.spec.get("views", []) if v.get("auto")), None)

        def on_post_setup(self, event):
            a = self._auto()
            if a is not None:
                views[a["id"]] = self.population_view

    class Ledger:
        """not a Component: a named object whose bound method is an initializer without created columns"""

        def __init__(self, name):
            self.name = name

        def initialize(self, data):
            log.append({"t": "init", "comp": self.name, "no": state["creation"], "index": [int(x) for x in data.index.tolist()],
                        "time": _time(data.creation_time), "window": _dur(data.creation_window),
                        "user": dict(data.user_data), "table": dump(), "flags": flags()})

    def _time(t):
        if isinstance(t, pd.Timestamp):
            return f"t{t.value}"
        return f"i{int(t)}"

    def _dur(d):
        if isinstance(d, pd.Timedelta):
            return f"t{d.value}"
        return f"i{int(d)}"

    comps = {c["name"]: (ProbeC(c) if c.get("reg") == "component" else Probe(c)) for c in case["comps"]}
    clock = case.get("clock", {"kind": "simple", "step": 1})
    nsteps = case.get("steps", 0)
    cfg = {"population": {"population_size": case["pop"]}}
    if clock["kind"] == "simple":
        plugins = {"required": {"clock": {"controller": "vivarium.framework.time.SimpleClock",
                                          "builder_interface": "vivarium.framework.time.TimeInterface"}}}
        cfg["time"] = {"start": clock.get("start", 0), "end": clock.get("start", 0) + clock["step"] * max(nsteps, 1),
                       "step_size": clock["step"]}
    else:
        plugins = None
        end = pd.Timestamp(2020, 1, 1) + pd.Timedelta(days=clock["step"] * max(nsteps, 1))
        cfg["time"] = {"start": {"year": 2020, "month": 1, "day": 1},
                       "end": {"year": end.year, "month": end.month, "day": end.day}, "step_size": clock["step"]}
    SimulationContext._clear_context_cache()
    sim = SimulationContext(components=list(comps.values()), configuration=cfg, plugin_configuration=plugins,
                            logging_verbosity=0)
    state["sim"] = sim
    out = {"log": log}
    sim.setup()
    views[0] = sim._population._view
    # the initial creation
    ent = {"t": "create", "k": case["pop"], "comp": None, "before": None, "no": 0, "user": {"sim_state": "setup"}}
    log.append(ent)
    inner = sim.simulant_creator

    def first_creator(count, user=None):
        ent.update(clock_now())
        new = inner(count, user)
        ent["labels"] = [int(x) for x in new.tolist()]
        return new

    sim.simulant_creator = first_creator
    try:
        sim.initialize_simulants()
        ent["out"] = "ok"
    except Exception as e:  # noqa: BLE001
        ent["out"] = "err:" + type(e).__name__
        state["stop"] = True
    log.append({"t": "endcreate", "no": 0, "ok": ent["out"] == "ok", "table": dump(), "flags": flags()})
    if not state["stop"]:
        for j in range(nsteps):
            state["step"] = j
            try:
                sim.step()
            except Exception as e:  # noqa: BLE001
                log.append({"t": "step-raised", "step": j, "exc": type(e).__name__})
                state["stop"] = True
                break
        state["step"] = nsteps
    if not state["stop"] and case.get("ops"):
        if nsteps == 0:
            sim._lifecycle.set_state("time_step__prepare")
            sim._lifecycle.set_state("time_step")
        for a in case["ops"]:
            if state["stop"]:
                break
            try:
                do(a, None)
            except Exception as e:  # noqa: BLE001 - an uncaught action outside a creation
                log.append({"t": "raised", "exc": type(e).__name__})
    check_held(len(log))
    out["held_changed"] = [[h[0], h[3]] for h in held if h[3] is not None]      # [read at log pos, first seen changed after log pos]
    out["final"] = dump()
    out["hashseed"] = os.environ.get("PYTHONHASHSEED")
    return out


# --------------------------------------------------------------------------------------- model lines
def script_lines(case: dict, obs: dict) -> tuple[list[str], list[tuple[int, str]]]:
    """driver lines for the observed log; second result maps line number -> (log position, what the reply is compared with)"""
    lines, expect = ["new", "view 0 tracked T"], []
    for c in case["comps"]:
        for v in c.get("views", []):
            lines.append(f"view {v['id']} {','.join(v['cols']) or '-'} {pred_rpn(v['q'])}")
    open_creations = []
    for i, e in enumerate(obs["log"]):
        t = e["t"]
        if t == "create":
            lines.append(f"create {e['k']}")
            expect.append((len(lines) - 1, i, "labels"))
            # the manager's own initializer (always first: every other initializer depends on column.tracked)
            n0 = len(e["before"]["rows"]) if e.get("before") else 0
            labels = list(range(n0, n0 + e["k"]))
            lines.append(upd_line({"view": 0, "form": "S", "rows": labels, "cols": [[None, "bool", ["b1"] * len(labels)]]}, True))
            expect.append((len(lines) - 1, i, "tracked-init"))
            open_creations.append(e["no"])
        elif t == "init":
            lines.append("dump")
            expect.append((len(lines) - 1, i, "table-during"))
        elif t == "upd":
            lines.append(upd_line(e["spec"], uncaught=bool(open_creations) and not e["caught"]))
            expect.append((len(lines) - 1, i, "out"))
            lines.append("dump")
            expect.append((len(lines) - 1, i, "table-during" if open_creations else "table"))
        elif t == "get":
            lines.append(f"get {e['view']} {rows_tok(e['idx'], e.get('range'))} {pred_rpn(e['q'])}")
            expect.append((len(lines) - 1, i, "frame"))
        elif t == "view":
            if e["out"] == "ok":
                lines.append(f"view {e['id']} {','.join(e['cols']) or '-'} {pred_rpn(e['q'])}")
        elif t == "sub":
            lines.append(f"sub {e['id']} {e['parent']} {','.join(e['cols']) or '-'}")
            expect.append((len(lines) - 1, i, "out"))
        elif t == "endcreate":
            lines.append("endcreate")
            expect.append((len(lines) - 1, i, "endcreate"))
            if open_creations:
                open_creations.pop()
            lines.append("dump")
            expect.append((len(lines) - 1, i, "table-during" if open_creations else "table"))
    return lines, expect


def compare_script(case, obs, replies) -> list[str]:
    lines, expect = script_lines(case, obs)
    dis = []
    for ln, i, what in expect:
        e, r = obs["log"][i], replies[ln]
        t = r.split()
        if not t or t[0] == "bad-op":
            dis.append(f"line {ln} `{lines[ln]}`: driver says {r}")
            continue
        if what == "labels":
            want = e.get("labels")
            if e["out"] == "ok" and (t[0] != "ok" or parse_table(t[1], "-")["rows"] != want):
                dis.append(f"log {i} create {e['k']}: impl labels {want}, model {r}")
        elif what == "tracked-init":
            pass        # judged through the tables that follow
        elif what == "out":
            if (e["out"] == "ok") != (t[0] == "ok"):
                dis.append(f"log {i} {e['t']} {json.dumps(e.get('spec') or e.get('cols'))[:200]}: impl {e['out']}, model {r}")
        elif what == "frame":
            if (e["out"] == "ok") != (t[0] == "ok"):
                dis.append(f"log {i} get view {e['view']} idx {e['idx']}: impl {e['out']}, model {r}")
            elif t[0] == "ok":
                d = table_diff(e["frame"], parse_table(t[1], t[2]), order=_explicit(case, obs, e["view"]))
                if d:
                    dis.append(f"log {i} get view {e['view']} idx {e['idx']} q {pred_query(e['q'])!r}: {d} (impl vs model)")
        elif what == "endcreate":
            if e["ok"] != (t[0] == "ok"):
                dis.append(f"log {i} end of creation {e['no']}: impl {'completed' if e['ok'] else 'raised'}, model {r}")
        elif what in ("table", "table-during"):
            mt = None if t[2] == "none" else parse_table(t[2], t[3])
            d = table_diff(e["table"], mt, dtypes=(what == "table"), exact=(what == "table"))
            if d:
                dis.append(f"log {i} {e['t']}: table differs, {d} (impl vs model)")
            mf = [t[1][0] == "1", t[1][1] == "1"]
            if e.get("flags") is not None and e["flags"] != mf:
                dis.append(f"log {i} {e['t']}: flags (creating_initial, adding) impl {e['flags']} model {mf}")
    return dis


def _explicit(case, obs, vid) -> bool:
    """was the view created with explicit columns (then the column order of a read is compared too)"""
    if vid == 0:
        return True
    for c in case["comps"]:
        for v in c.get("views", []):
            if v["id"] == vid:
                return bool(v["cols"])
    for e in obs["log"]:
        if e["t"] == "view" and e["id"] == vid:
            return bool(e["cols"])
    return True      # sub-views always have explicit columns


def view_defs(case, obs) -> dict:
    """id -> {cols, userq, explicit} for every view that exists at some point of the log (sub-views inherit the
    user query of their parent)"""
    d = {0: {"cols": ["tracked"], "q": ["T"]}}
    for c in case["comps"]:
        for v in c.get("views", []):
            d[v["id"]] = {"cols": list(v["cols"]), "q": v["q"]}
    for e in obs["log"]:
        if e["t"] == "view" and e["out"] == "ok":
            d[e["id"]] = {"cols": list(e["cols"]), "q": e["q"]}
        if e["t"] == "sub" and e["out"] == "ok" and e["parent"] in d:
            d[e["id"]] = {"cols": list(e["cols"]), "q": d[e["parent"]]["q"], "parent": e["parent"]}
    return d


# --------------------------------------------------------------------------------------- workers
class Workers:
    """persistent `python -m vcheck.props.c11_worker` subprocesses, one per PYTHONHASHSEED (and per parent pid)"""

    def __init__(self):
        self.procs = {}

    def _start(self, hashseed):
        env = dict(os.environ)
        env["PYTHONHASHSEED"] = str(hashseed)
        env["PYTHONDONTWRITEBYTECODE"] = "1"
        return subprocess.Popen([sys.executable, "-W", "ignore", "-m", "vcheck.props.c11_worker"], cwd=str(paths.VERIF),
                                stdin=subprocess.PIPE, stdout=subprocess.PIPE, text=True, env=env)

    def call(self, hashseed, case):
        key = (os.getpid(), hashseed)
        p = self.procs.get(key)
        if p is None or p.poll() is not None:
            p = self.procs[key] = self._start(hashseed)
        try:
            p.stdin.write(json.dumps(case) + "\n")
            p.stdin.flush()
            line = p.stdout.readline()
            if not line:
                raise RuntimeError(f"worker (PYTHONHASHSEED={hashseed}) died, exit {p.poll()}")
            return json.loads(line)
        except BaseException:
            try:
                p.kill()
            finally:
                self.procs.pop(key, None)
            raise


WORKERS = Workers()


def run_under_seeds(case, seeds) -> dict:
    """observation under the first hash seed + digest comparison with the others"""
    obs = None
    others = []
    for s in seeds:
        o = WORKERS.call(s, case)
        if o.get("__timeout__"):
            return {"__timeout__": True}        # the worker used up its CPU-time budget: the implementation hangs
        if "__crash__" in o:
            raise RuntimeError(f"worker crashed (PYTHONHASHSEED={s}): {o['__crash__']}\n{o.get('__trace__', '')}")
        if obs is None:
            obs = o
        else:
            a, b = _seed_canon(obs), _seed_canon(o)
            others.append({"hashseed": s, "same": json.dumps(a, sort_keys=True) == json.dumps(b, sort_keys=True),
                           "first_diff": None if a == b else _first_diff(a, b)})
    obs["seeds"] = list(seeds)
    obs["other_seeds"] = others
    return obs


def _seed_canon(o):
    """what must not depend on the hash seed: everything observed, exception classes reduced to ok / err"""
    o = json.loads(json.dumps(o))
    o.pop("hashseed", None)
    for e in o.get("log", []):
        if isinstance(e.get("out"), str) and e["out"].startswith("err"):
            e["out"] = "err"
    return o


def _first_diff(a, b):
    for i, (x, y) in enumerate(zip(a["log"], b["log"])):
        if x != y:
            return {"log": i, "a": x, "b": y}
    return {"final": [a.get("final"), b.get("final")]}


# --------------------------------------------------------------------------------------- shared Prop base
from .runner import Prop  # noqa: E402


class TableProp(Prop):
    """what C11 / C12 / C13 share: the real code runs in worker subprocesses under the case's hash seeds,
    the log is replayed line by line on Driver/C11.lean"""

    driver = "C11"
    build_targets = ["VivModel.Model.Table", "VivModel.Model.Proto"]
    workers = 6
    case_timeout = 300

    def run_impl(self, case):
        return run_under_seeds(case, case.get("seeds") or [0])

    def model_lines(self, case, obs):
        return script_lines(case, obs)[0]

    def compare(self, case, obs, replies):
        obs["model_errs"] = sorted({r.split()[1] for r in replies if r.startswith("err ")})
        return compare_script(case, obs, replies)

    def seed_failures(self, case, obs):
        out = []
        for o in obs.get("other_seeds", []):
            if not o["same"]:
                out.append({"sig": "hashseed-dependent",
                            "msg": f"behaviour under PYTHONHASHSEED={o['hashseed']} differs from PYTHONHASHSEED={obs['seeds'][0]}: "
                                   f"{json.dumps(o['first_diff'], default=str)[:600]}"})
        return out

    def shrink(self, case):
        ops = case.get("ops") or []
        for i in range(len(ops) - 1, -1, -1):
            yield dict(case, ops=ops[:i] + ops[i + 1:])
        hooks = case.get("hooks") or {}
        for k in sorted(hooks, reverse=True):
            acts = hooks[k]
            for i in range(len(acts) - 1, -1, -1):
                h = dict(hooks)
                h[k] = acts[:i] + acts[i + 1:]
                if not h[k]:
                    del h[k]
                yield dict(case, hooks=h)
        if case.get("steps", 0) > 0 and not any(int(k.split(":")[0]) >= case["steps"] - 1 for k in hooks):
            yield dict(case, steps=case["steps"] - 1)
        if len(case.get("seeds") or []) > 1:
            for s in case["seeds"]:
                yield dict(case, seeds=[s])
        used = _used_views(case)
        for ci, c in enumerate(case["comps"]):
            for vi, v in enumerate(c.get("views", [])):
                if v["id"] not in used:
                    comps = [dict(x) for x in case["comps"]]
                    comps[ci]["views"] = c["views"][:vi] + c["views"][vi + 1:]
                    yield dict(case, comps=comps)

    def sample_view(self, case, obs):
        log = obs.get("log", [])
        return {"comps": [{"name": c["name"], "cols": c["cols"], "views": c.get("views", [])} for c in case["comps"]],
                "pop": case["pop"], "n_ops": len(case.get("ops") or []), "hooks": sorted(case.get("hooks") or {}),
                "log_head": [{k: v for k, v in e.items() if k not in ("table", "before", "frame")} for e in log[:6]],
                "final": obs.get("final")}


def history_failures(case, obs) -> list:
    """Independent of anything read back from the implementation except accepted / rejected: the table that the
    HISTORY implies (rows from the creation requests of the case, cells from the values the case supplied in accepted
    updates) is compared with the observed table after every step. Stops at the first accepted update whose dtype
    differs from the column's (finding F22 is reported by its own clause)."""
    vdefs = view_defs(case, obs)
    rows, cols = None, {}            # cols: name -> [dtype, {row: token}]
    depth = 0
    out = []
    for i, e in enumerate(obs["log"]):
        t = e["t"]
        if t == "create":
            if rows is None:
                rows = []
            new = list(range(len(rows), len(rows) + e["k"]))
            rows = rows + new
            cols.setdefault("tracked", ["bool", {}])       # the population system itself marks new simulants as tracked
            for r in new:
                cols["tracked"][1][r] = "b1"
            depth += 1
        elif t == "endcreate":
            depth = max(0, depth - 1)
        elif t == "upd" and e.get("out") == "ok" and e["spec"]["form"] != "X":
            sp = e["spec"]
            vd = vdefs.get(sp["view"])
            for name, dt, toks in sp["cols"]:
                if name is None:
                    vc = (vd["cols"] if vd and vd["cols"] else list(cols))
                    if len(vc) != 1:
                        return out
                    name = vc[0]
                if name not in cols:
                    cols[name] = [dt, {}]
                if dt != cols[name][0] and sp["rows"]:
                    return out
                for r, v in zip(sp["rows"], toks):
                    cols[name][1][r] = v
        if "table" not in e or e["table"] is None and rows is None:
            continue
        got = e["table"] or {"rows": [], "cols": []}
        want_rows = rows or []
        if got["rows"] != want_rows:
            out.append({"sig": "table-differs-from-history", "msg": f"log {i} {t}: the index is {got['rows']}, the creation requests so far imply {want_rows}"})
            return out
        gc = {c[0]: c for c in got["cols"]}
        if sorted(gc) != sorted(cols):
            out.append({"sig": "table-differs-from-history", "msg": f"log {i} {t}: the columns are {sorted(gc)}, the accepted updates so far imply {sorted(cols)}"})
            return out
        for name, (dt, cells) in cols.items():
            vals = gc[name][2]
            for r, v in zip(got["rows"], vals):
                w = cells.get(r, "n")
                if not same_value(norm_tok(v), norm_tok(w)) and not (w == "n" and gc[name][1] == "bool" and v == "b1"):
                    out.append({"sig": "table-differs-from-history",
                                "msg": f"log {i} {t}: cell ({r},{name}) is {v}; the last accepted update that addressed it supplied {w}"})
                    return out
            unfilled = dt in ("int", "bool") and any(cells.get(r, "n") == "n" for r in got["rows"])   # (an aborted creation: no integer / boolean NaN)
            if depth == 0 and gc[name][1] != dt and not (dt == "obj" and gc[name][1] == "str") and not unfilled:
                out.append({"sig": "table-differs-from-history", "msg": f"log {i} {t}: column {name} is {gc[name][1]}; it was created as {dt}"})
                return out
    return out


def population_failures(obs) -> list:
    """frames returned by SimulationContext / PopulationManager.get_population are the whole table, or its tracked rows"""
    out = []
    for i, e, prev, cr in walk(obs):
        if e["t"] != "pop" or e.get("out") != "ok":
            if e["t"] == "pop":
                out.append({"sig": "get-population-raised", "msg": f"log {i}: get_population({e['untracked']}) via {e['via']}: {e.get('out')}"})
            continue
        t = prev or {"rows": [], "cols": []}
        if table_diff(t, e["table"] or {"rows": [], "cols": []}):
            out.append({"sig": "read-changed-table", "msg": f"log {i} get_population: {table_diff(t, e['table'])}"})
        want = t
        if not e["untracked"] and col_of(t, "tracked") is not None:
            keep = [k for k, r in enumerate(t["rows"]) if cell(t, r, "tracked") == "b1"]
            want = {"rows": [t["rows"][k] for k in keep], "cols": [[c[0], c[1], [c[2][k] for k in keep]] for c in t["cols"]]}
        d = table_diff(want, e["frame"])
        if d:
            out.append({"sig": "get-population-wrong", "msg": f"log {i}: get_population(untracked={e['untracked']}) via {e['via']}: {d} (expected vs returned)"})
    return out


def held_failures(obs) -> list:
    return [{"sig": "held-frame-changed",
             "msg": f"the frame handed out at log position {a} had changed after log position {b} ({obs['log'][b]['t'] if b < len(obs['log']) else 'end'}"
                    f"{' ' + str(obs['log'][b].get('out')) if b < len(obs['log']) else ''})"} for a, b in obs.get("held_changed", [])[:3]]


def _need_tracked(vd) -> bool:
    return bool(vd["cols"]) and "tracked" not in vd["cols"] and "tracked" not in pred_cols(vd["q"])


def read_failures(case, obs) -> list:
    """C12's own statement evaluated on every read and sub-view request of a log: reference filter over the full table the
    reader could see, the view's columns, the table's values and dtypes; sub-view accepted iff non-empty subset"""
    fails = []
    vdefs = view_defs(case, obs)
    known_views = dict(view_defs(case, {"log": []}))

    def fail(sig, msg):
        fails.append({"sig": sig, "msg": msg})

    for i, e, prev, cr in walk(obs):
        if e["t"] == "view" and e.get("out") == "ok":
            known_views[e["id"]] = {"cols": list(e["cols"]), "q": e["q"]}
        if e["t"] == "sub":
            parent = known_views.get(e["parent"])
            if parent is not None and prev is not None:
                pc = parent["cols"] or [c[0] for c in prev["cols"]]
                good = bool(e["cols"]) and all(c in pc for c in e["cols"])
                if good and e["out"] != "ok":
                    fail("subview-rejected-good", f"log {i}: subview {e['cols']} of view {e['parent']} {pc} refused ({e['out']})")
                if not good and e["out"] == "ok":
                    fail("subview-accepted-bad", f"log {i}: subview {e['cols']} of view {e['parent']} {pc} accepted")
                if e["out"] == "ok":
                    known_views[e["id"]] = {"cols": list(e["cols"]), "q": parent["q"], "parent": e["parent"]}
            if table_diff(prev, e.get("table")):
                fail("read-changed-table", f"log {i} sub: {table_diff(prev, e.get('table'))}")
        if e["t"] != "get":
            continue
        t = prev if prev is not None else {"rows": [], "cols": []}
        d = table_diff(t, e["table"] if e["table"] is not None else {"rows": [], "cols": []})
        if d:
            fail("read-changed-table", f"log {i} get (frame overwritten in place afterwards: {bool(e.get('mutated'))}): {d}")
        vd = vdefs.get(e["view"])
        if vd is None:
            continue
        tcols = [c[0] for c in t["cols"]]
        vcols = vd["cols"] or tcols
        unknown = [r for r in e["idx"] if r not in t["rows"]]
        missing = [c for c in vcols if c not in tcols]
        qmissing = [c for c in (pred_cols(vd["q"]) | pred_cols(e["q"])) if c not in tcols]
        desc = f"log {i} get view {e['view']} cols {vd['cols']} query {pred_query(vd['q'])!r} idx {e['idx']} extra {pred_query(e['q'])!r}"
        if missing:
            if e["out"] == "ok":
                fail("missing-column-silently-omitted", f"{desc}: columns {missing} do not exist, yet the read returned {e['frame']}")
            continue
        if unknown:
            if e["out"] == "ok":
                fail("unknown-label-accepted", f"{desc}: labels {unknown} do not exist, yet the read returned rows {e['frame']['rows']}")
            continue
        if qmissing or (_need_tracked(vd) and "tracked" not in tcols):
            continue        # the query cannot be evaluated; the property has no opinion on the outcome class
        if e["out"] != "ok":
            fail("good-read-refused", f"{desc}: {e['out']}")
            continue
        nt = _need_tracked(vd)

        def keep(r):
            tr = cell(t, r, "tracked") == "b1"
            return pred_eval(vd["q"], t, r) and pred_eval(e["q"], t, r) and (tr or not nt)

        want = [r for r in e["idx"] if keep(r)] if e["idx"] else []
        got = e["frame"]
        if got["rows"] != want:
            sig = "get-wrong-rows"
            extra_rows = [r for r in got["rows"] if r not in want]
            if nt and extra_rows and all(cell(t, r, "tracked") != "b1" for r in extra_rows):
                sig = "untracked-returned"
            elif sorted(got["rows"]) == sorted(want):
                sig = "get-wrong-order"
            fail(sig, f"{desc}: returned rows {got['rows']}, expected {want} (tracked: "
                      f"{[r for r in t['rows'] if cell(t, r, 'tracked') == 'b1']})")
            continue
        gcols = [c[0] for c in got["cols"]]
        if (gcols != vcols) if vd["cols"] else (sorted(gcols) != sorted(vcols)):
            fail("get-wrong-columns" if vd["cols"] else "whole-table-view-columns",
                 f"{desc}: returned columns {gcols}, " + (f"the view has {vcols}" if vd["cols"] else f"the table currently has {vcols}"))
            continue
        for name, dt, vals in got["cols"]:
            tc = col_of(t, name)
            if dt != tc[1] and {dt, tc[1]} != {"str", "obj"}:
                fail("get-wrong-dtype", f"{desc}: column {name} is {dt}, the table has {tc[1]}")
            for r, v in zip(got["rows"], vals):
                if norm_tok(v) != norm_tok(cell(t, r, name)):
                    fail("get-wrong-values", f"{desc}: cell ({r},{name}) is {v}, the table has {cell(t, r, name)}")
                    break
    return fails


def form_tags(case, obs) -> list:
    """which containers, dtypes, index kinds, call forms, handles, performers and moments the case exercised"""
    t = []
    owner = {v["id"]: c["name"] for c in case["comps"] for v in c.get("views", [])}
    for c in case["comps"]:
        t.append("registered:" + c.get("reg", "builder"))
        for v in c.get("views", []):
            if v.get("auto"):
                t.append("view-form:component-auto" + ("-whole-table" if not v["cols"] else ""))
            elif v.get("as_str"):
                t.append("view-form:column-as-str")
            elif v["q"] == ["T"] and v.get("noq"):
                t.append("view-form:no-query-arg")
        for _, d in c["cols"]:
            t.append("column-dtype:" + d)
    for i, e, prev, cr in walk(obs):
        when = "outside" if cr is None and not e.get("comp") else "listener" if cr is None else \
               ("initial-creation" if cr.get("before") is None else "birth")
        if e["t"] == "upd":
            sp = e["spec"]
            f = e.get("forms", ["int64", "-"])
            t.append("upd-index:" + f[0])
            if sp.get("range"):
                t.append("upd-range:" + range_shape(sp["range"], len(prev["rows"]) if prev else None))
            for c in sp["cols"]:
                if c[2] and c[1] not in ("int", "bool", "i32"):
                    k = sum(1 for v in c[2] if v == "n")
                    if k:
                        t.append(f"upd-nulls:{'all' if k == len(c[2]) else 'one' if k == 1 else 'some'}:{c[1]}:{when}")
            if sp["form"] == "X":
                t.append("upd-object:" + f[1])
            for c in sp["cols"]:
                t.append("upd-dtype:" + c[1])
            rows = sp.get("rows", [])
            n = len(prev["rows"]) if prev else 0
            if rows and len(rows) == n and sorted(rows) == list(range(n)):
                t.append("upd-rows:full-" + ("sorted" if rows == sorted(rows) else "reversed" if rows == sorted(rows, reverse=True) else "permuted"))
            if e.get("comp") and owner.get(sp["view"]) not in (None, e["comp"]):
                t.append("upd-through-another-components-view:" + when)
            if prev and any(cell(prev, r, "tracked") == "b0" for r in rows if r in prev["rows"]):
                t.append("upd-addresses-untracked")
        elif e["t"] == "get":
            f = e.get("forms", ["int64", "query-arg"])
            t += ["get-index:" + f[0], "get-form:" + f[1], "get-when:" + when]
            if e.get("range"):
                t.append("get-range:" + range_shape(e["range"], len(prev["rows"]) if prev else None))
                if prev and any(cell(prev, r, "tracked") == "b0" for r in e["idx"] if r in prev["rows"]):
                    t.append("get-range-covers-untracked")
            if e.get("comp") and owner.get(e["view"]) not in (None, e["comp"]):
                t.append("get-through-another-components-view")
        elif e["t"] == "view":
            t.append(f"view-requested:{when}:{e['out'].split(':')[0]}")
        elif e["t"] == "sub" and cr is not None:
            t.append("sub-view-requested:" + when)
        elif e["t"] == "pop":
            t.append(f"get_population:{e['via']}:{'all' if e['untracked'] else 'tracked'}:{when}")
        elif e["t"] == "create" and cr is not None:
            t.append("creation-inside-creation")
    for a, b in obs.get("held_changed", []):
        t.append("held-changed")
    return t


def _used_views(case) -> set:
    used = set()

    def scan(x):
        if isinstance(x, dict):
            for k, v in x.items():
                if k in ("view", "parent") and isinstance(v, int):
                    used.add(v)
                else:
                    scan(v)
        elif isinstance(x, list):
            for y in x:
                scan(y)
    scan([case.get("ops"), case.get("hooks"), case.get("init")])
    return used


def walk(obs):
    """yield (position, entry, table before the entry, creation the entry belongs to or None)"""
    prev = None
    stack = []
    for i, e in enumerate(obs["log"]):
        if e["t"] == "create":
            yield i, e, prev, (stack[-1] if stack else None)
            stack.append(e)
            continue
        if e["t"] == "endcreate":
            cr = stack.pop() if stack else None
            yield i, e, prev, cr
        else:
            yield i, e, prev, (stack[-1] if stack else None)
        if "table" in e:
            prev = e["table"]


NULLABLE = ("flt", "str", "time", "cat", "obj", "f32")


def value_tokens(dtype, rng, n, allow_null=True, nulls=None):
    """`nulls` (lesson 15, only for dtypes that can hold a null): "all" = null for everybody, "one" = exactly one null,
    "some" = at least one null and one value (when n allows); None = the usual sprinkling"""
    if nulls and dtype in NULLABLE and n:
        out = value_tokens(dtype, rng, n, allow_null=False)
        k = n if nulls == "all" else 1 if nulls == "one" or n < 3 else rng.randint(1, n - 1)
        for i in rng.sample(range(n), k):
            out[i] = "n"
        return out
    out = []
    for _ in range(n):
        if dtype == "int":
            out.append(f"i{rng.randint(-3, 12)}")
        elif dtype == "flt":
            out.append("n" if allow_null and rng.random() < 0.08 else ftok(rng.randint(-8, 40) / 4))
        elif dtype in ("str", "cat", "obj"):
            out.append("n" if allow_null and rng.random() < 0.05 else "s" + rng.choice(CATS))
        elif dtype == "i32":
            out.append(f"i{rng.randint(-3, 12)}")
        elif dtype == "f32":
            out.append(ftok(rng.randint(-8, 40) / 4))
        elif dtype == "bool":
            out.append(rng.choice(["b0", "b1"]))
        elif dtype == "time":
            out.append("n" if allow_null and rng.random() < 0.05 else f"t{T0 + DAY * rng.randint(0, 9)}")
        else:
            raise ValueError(dtype)
    return out


def random_pred(rng, cols, depth=0):
    """cols: [(name, dtype)] the query may refer to (bool columns include `tracked` when the caller adds it)"""
    r = rng.random()
    if depth < 2 and r < 0.35:
        return [rng.choice(["and", "or"]), random_pred(rng, cols, depth + 1), random_pred(rng, cols, depth + 1)]
    name, dt = rng.choice([c for c in cols if c[1] != "time"] or [("tracked", "bool")])   # (pandas compares datetimes with string constants inconsistently)
    if dt == "int":
        return ["a", name, rng.choice(list(OPS)), rng.choice([f"i{rng.randint(-2, 10)}", ftok(rng.randint(-4, 20) / 2)])]
    if dt == "flt":
        return ["a", name, rng.choice(list(OPS)), rng.choice([f"i{rng.randint(-2, 10)}", ftok(rng.randint(-8, 40) / 4)])]
    if dt in ("str", "cat"):
        return ["a", name, rng.choice(["eq", "ne"]), "s" + rng.choice(["x", "y", "z", "tracked_x"])]
    if dt == "bool":
        return ["a", name, rng.choice(["eq", "ne"]), rng.choice(["b0", "b1"])]
    return ["a", name, rng.choice(list(OPS)), f"t{T0 + DAY * rng.randint(0, 9)}"]
