"""Translator: Python AST of ${VERIF_REPO}/src/vivarium -> lean/VivModel/Gen/*.lean.

Regenerated on every run. Each generated table is something a property theorem is stated
about (C06 lifecycle + context-method skeletons, C07 constraint table, C08 bucket count and
run-loop comparison, C20 configuration layers and setup skeleton). Files are written only when
their content changes, atomically, so an unchanged tree costs a no-op `lake build`.

A construct the translator cannot read is reported through `TranslationError`; the caller
treats that like a broken proof obligation (never as an immediate verdict).
"""
from __future__ import annotations

import ast
import os
import pathlib
import tempfile

from . import paths


class TranslationError(Exception):
    pass


def _lit(node):
    try:
        return ast.literal_eval(node)
    except Exception as e:  # noqa: BLE001
        raise TranslationError(f"not a literal at line {getattr(node, 'lineno', '?')}: {ast.unparse(node)}") from e


def _lstr(xs):
    return "[" + ", ".join('"%s"' % x for x in xs) + "]"


def _parse(rel: str) -> ast.Module:
    p = paths.repo_src() / "vivarium" / rel
    try:
        return ast.parse(p.read_text())
    except (OSError, SyntaxError) as e:
        raise TranslationError(f"cannot parse {rel}: {e}") from e


def _cls(tree: ast.Module, name: str) -> ast.ClassDef:
    for n in tree.body:
        if isinstance(n, ast.ClassDef) and n.name == name:
            return n
    raise TranslationError(f"class {name} not found")


def _fn(cls: ast.ClassDef, name: str) -> ast.FunctionDef:
    for n in cls.body:
        if isinstance(n, ast.FunctionDef) and n.name == name:
            return n
    raise TranslationError(f"method {cls.name}.{name} not found")


def _attr_name(f) -> str | None:
    if isinstance(f, ast.Attribute):
        return f.attr
    if isinstance(f, ast.Name):
        return f.id
    return None


# --------------------------------------------------------------------------- lifecycle

def lifecycle_phases():
    """Phases in declaration order: LifeCycle.__init__ first, then SimulationContext.__init__."""
    phases = []
    for rel, clsname in (("framework/lifecycle.py", "LifeCycle"), ("framework/engine.py", "SimulationContext")):
        init = _fn(_cls(_parse(rel), clsname), "__init__")
        calls = [n for n in ast.walk(init) if isinstance(n, ast.Call) and _attr_name(n.func) == "add_phase"]
        calls.sort(key=lambda n: (n.lineno, n.col_offset))
        for n in calls:
            kw = {k.arg: _lit(k.value) for k in n.keywords}
            if len(n.args) < 2:
                raise TranslationError(f"add_phase with <2 positional args at {rel}:{n.lineno}")
            loop = kw.get("loop", _lit(n.args[2]) if len(n.args) > 2 else False)
            phases.append((_lit(n.args[0]), list(_lit(n.args[1])), bool(loop)))
    return phases


def _emitter_map(ctx: ast.ClassDef):
    """Names (local or self.<attr>) bound to `...get_emitter(<const>)` anywhere in the class."""
    m = {}
    for n in ast.walk(ctx):
        if isinstance(n, ast.Assign) and isinstance(n.value, ast.Call) and _attr_name(n.value.func) == "get_emitter":
            if n.value.args and isinstance(n.value.args[0], ast.Constant):
                for t in n.targets:
                    nm = _attr_name(t)
                    if nm:
                        m[nm] = n.value.args[0].value
    return m


def _loop_phase(ctx: ast.ClassDef):
    """`self.time_step_events = self._lifecycle.get_state_names(<phase>)`"""
    for n in ast.walk(ctx):
        if isinstance(n, ast.Assign) and isinstance(n.value, ast.Call) and _attr_name(n.value.func) == "get_state_names":
            for t in n.targets:
                if _attr_name(t) == "time_step_events":
                    return _lit(n.value.args[0])
    raise TranslationError("time_step_events assignment not found")


class _Skel(ast.NodeVisitor):
    """Ordered framework actions of one context method (source order = evaluation order here)."""

    def __init__(self, emitters, loop_phase, methods=None):
        self.acts = []
        self.emitters = emitters
        self.loop_phase = loop_phase
        self.loopvar = None
        self.methods = methods or {}     # private helpers of the context class: a call `self._helper(...)` is followed into its body
        self.aliases = {}                # local name -> ("emitVar" | ("emit", event)) for `emit = self.time_step_emitters[event]`
        self.depth = 0

    def visit_Assign(self, node):
        v = node.value
        if len(node.targets) == 1 and isinstance(node.targets[0], ast.Name):
            if isinstance(v, ast.Subscript) and _attr_name(v.value) == "time_step_emitters" and \
                    isinstance(v.slice, ast.Name) and v.slice.id == self.loopvar:
                self.aliases[node.targets[0].id] = "emitVar"
                return
            nm = _attr_name(v) if isinstance(v, (ast.Attribute, ast.Name)) else None
            if nm in self.emitters:
                self.aliases[node.targets[0].id] = ("emit", self.emitters[nm])
                return
        self.generic_visit(node)

    def visit_For(self, node):
        if _attr_name(node.iter) == "time_step_events" and isinstance(node.target, ast.Name):
            self.acts.append(("loopBegin", self.loop_phase))
            self.loopvar = node.target.id
            for s in node.body:
                self.visit(s)
            self.loopvar = None
            self.acts.append(("loopEnd", None))
            for s in node.orelse:
                self.visit(s)
        else:
            self.generic_visit(node)

    def visit_Call(self, node):
        # arguments are evaluated before the call itself
        for a in node.args:
            self.visit(a)
        for k in node.keywords:
            self.visit(k.value)
        f = node.func
        name = _attr_name(f)
        if isinstance(f, ast.Name) and f.id in self.aliases:
            a = self.aliases[f.id]
            self.acts.append(("emitVar", None) if a == "emitVar" else a)
            return
        if isinstance(f, ast.Attribute) and isinstance(f.value, ast.Name) and f.value.id == "self" and name in self.methods \
                and name not in CONTEXT_METHODS and name not in ("get_population", "run") and self.depth < 3:
            # an extracted private helper: follow it, binding a parameter that receives the loop variable to that role
            h = self.methods[name]
            params = [a.arg for a in h.args.args][1:]
            saved = self.loopvar
            for p_, a_ in zip(params, node.args):
                if isinstance(a_, ast.Name) and a_.id == saved:
                    self.loopvar = p_
            self.depth += 1
            for s_ in h.body:
                self.visit(s_)
            self.depth -= 1
            self.loopvar = saved
            return
        if name == "set_state":
            a = node.args[0] if node.args else None
            if isinstance(a, ast.Constant):
                self.acts.append(("set", a.value))
            elif isinstance(a, ast.Name) and a.id == self.loopvar:
                self.acts.append(("setVar", None))
            else:
                raise TranslationError(f"set_state with unreadable argument at line {node.lineno}")
        elif name == "freeze":
            self.acts.append(("freeze", None))
        elif name == "setup_components":
            self.acts.append(("setupComponents", None))
        elif name == "step_backward":
            self.acts.append(("stepBack", None))
        elif name == "step_forward":
            self.acts.append(("stepFwd", None))
        elif name == "simulant_creator":
            self.acts.append(("create", None))
        elif name == "get_population":
            self.acts.append(("getPop", None))
        elif name in self.emitters and not (isinstance(f, ast.Attribute) and name == "get_emitter"):
            self.acts.append(("emit", self.emitters[name]))
        elif isinstance(f, ast.Subscript) and _attr_name(f.value) == "time_step_emitters":
            sl = f.slice
            if isinstance(sl, ast.Name) and sl.id == self.loopvar:
                self.acts.append(("emitVar", None))
            else:
                raise TranslationError(f"time_step_emitters indexed by something else at line {node.lineno}")
        elif name == "step" and isinstance(f, ast.Attribute) and isinstance(f.value, ast.Name) and f.value.id == "self":
            self.acts.append(("callStep", None))
        elif isinstance(f, ast.Attribute):
            self.visit(f.value)


CONTEXT_METHODS = ("setup", "initialize_simulants", "step", "finalize", "report")


def context_skeletons():
    eng = _parse("framework/engine.py")
    ctx = _cls(eng, "SimulationContext")
    emitters = _emitter_map(ctx)
    loop_phase = _loop_phase(ctx)
    skel = {}
    methods = {n.name: n for n in ctx.body if isinstance(n, ast.FunctionDef)}
    for m in CONTEXT_METHODS:
        v = _Skel(emitters, loop_phase, methods)
        for s in _fn(ctx, m).body:
            v.visit(s)
        skel[m] = v.acts
    # run(): every `while` loop must be `while <time> <cmp> <stop>: ... self.step() ...`
    cmps = set()
    for n in ast.walk(_fn(ctx, "run")):
        if isinstance(n, ast.While):
            t = n.test
            if not (isinstance(t, ast.Compare) and len(t.ops) == 1):
                raise TranslationError(f"run(): unreadable loop test at line {n.lineno}")
            left, right = ast.unparse(t.left), ast.unparse(t.comparators[0])
            if "current_time" not in left and "time" not in left or "stop" not in right:
                raise TranslationError(f"run(): loop test is not time-vs-stop at line {n.lineno}")
            cmps.add(type(t.ops[0]).__name__)
            if not any(isinstance(c, ast.Call) and _attr_name(c.func) == "step" for c in ast.walk(n)):
                raise TranslationError(f"run(): loop without step() at line {n.lineno}")
    if len(cmps) != 1:
        raise TranslationError(f"run(): expected one loop comparison, found {sorted(cmps)}")
    return skel, cmps.pop()


# --------------------------------------------------------------------------- constraints

def constraint_sites():
    root = paths.repo_src() / "vivarium"
    rows, dynamic = [], []
    for p in sorted(root.rglob("*.py")):
        try:
            tree = ast.parse(p.read_text())
        except SyntaxError as e:
            raise TranslationError(f"cannot parse {p}: {e}") from e
        rel = str(p.relative_to(root))
        if rel.startswith("examples/") or rel == "framework/lifecycle.py":
            continue
        for n in ast.walk(tree):
            if isinstance(n, ast.Call) and _attr_name(n.func) in ("add_constraint", "_add_constraint") and n.args:
                kw = {k.arg: k.value for k in n.keywords}
                if "allow_during" in kw and "restrict_during" in kw:
                    raise TranslationError(f"{rel}:{n.lineno}: both allow_during and restrict_during")
                if "allow_during" in kw:
                    mode, val = "allow", kw["allow_during"]
                elif "restrict_during" in kw:
                    mode, val = "restrict", kw["restrict_during"]
                else:
                    raise TranslationError(f"{rel}:{n.lineno}: add_constraint without state list keyword")
                tgt = ast.unparse(n.args[0])
                try:
                    states = list(ast.literal_eval(val))
                    rows.append((rel, n.lineno, tgt, mode, states))
                except Exception:  # noqa: BLE001 - computed at run time (one emitter per channel)
                    dynamic.append((rel, n.lineno, tgt, mode, ast.unparse(val)))
    return rows, dynamic


# --------------------------------------------------------------------------- events

def event_tables():
    ev = _parse("framework/event.py")
    ch = _cls(ev, "EventChannel")
    n_buckets = None
    for n in ast.walk(_fn(ch, "__init__")):
        if isinstance(n, ast.ListComp) and n.generators and isinstance(n.generators[0].iter, ast.Call) \
                and _attr_name(n.generators[0].iter.func) == "range":
            n_buckets = _lit(n.generators[0].iter.args[0])
    if n_buckets is None:
        raise TranslationError("EventChannel.__init__: bucket comprehension not found")
    mgr = _cls(ev, "EventManager")
    reg = _fn(mgr, "register_listener")
    default_prio = _lit(reg.args.defaults[-1]) if reg.args.defaults else None
    if default_prio is None:
        raise TranslationError("register_listener: default priority not found")
    # Event time/step expressions in emit(): Event(index, user_data, <time>, <step>)
    emit = _fn(ch, "emit")
    time_expr = step_expr = None
    for n in ast.walk(emit):
        if isinstance(n, ast.Call) and _attr_name(n.func) == "Event" and len(n.args) >= 4:
            time_expr, step_expr = ast.unparse(n.args[2]), ast.unparse(n.args[3])
    if time_expr is None:
        raise TranslationError("EventChannel.emit: Event(...) construction not found")
    norm = lambda s: "".join(s.split())  # noqa: E731
    time_is_clock_plus_step = norm(time_expr) in (
        "self.manager.clock()+self.manager.step_size()", "self.manager.step_size()+self.manager.clock()")
    step_is_step = norm(step_expr) == "self.manager.step_size()"
    # bucket walk: `for priority_bucket in self.listeners:` (forward) – record the iter expression
    walk = None
    for n in ast.walk(emit):
        if isinstance(n, ast.For) and "listeners" in ast.unparse(n.iter):
            walk = norm(ast.unparse(n.iter))
            break
    return n_buckets, default_prio, time_is_clock_plus_step, step_is_step, walk == "self.listeners"


# --------------------------------------------------------------------------- configuration layers

def config_tables():
    cfg = _parse("framework/configuration.py")
    layers = None
    for n in ast.walk(cfg):
        if isinstance(n, ast.Call) and _attr_name(n.func) == "LayeredConfigTree":
            for k in n.keywords:
                if k.arg == "layers":
                    v = k.value
                    if isinstance(v, ast.Name):  # a local variable holding the literal list
                        vid = v.id
                        for a in ast.walk(cfg):
                            if isinstance(a, ast.Assign) and any(_attr_name(t) == vid for t in a.targets):
                                v = a.value
                    layers = list(_lit(v))
    if layers is None:
        raise TranslationError("configuration.py: LayeredConfigTree(layers=[...]) not found")
    # which layer each update in configuration.py targets
    upd = []
    for n in ast.walk(cfg):
        if isinstance(n, ast.Call) and _attr_name(n.func) == "update":
            lay = [k for k in n.keywords if k.arg == "layer"]
            if lay:
                src = [k for k in n.keywords if k.arg == "source"]
                upd.append((n.lineno, ast.unparse(n.args[0]) if n.args else "?", _lit(lay[0].value),
                            _lit(src[0].value) if src and isinstance(src[0].value, ast.Constant) else ""))
    upd.sort()
    # component defaults layer (components/manager.py apply_configuration_defaults)
    cm = _parse("framework/components/manager.py")
    comp_layer = None
    for n in ast.walk(cm):
        if isinstance(n, ast.Call) and _attr_name(n.func) == "update":
            for k in n.keywords:
                if k.arg == "layer":
                    comp_layer = _lit(k.value)
    if comp_layer is None:
        raise TranslationError("components/manager.py: configuration.update(..., layer=...) not found")
    return layers, upd, comp_layer


# --------------------------------------------------------------------------- index map constants

def index_map_tables():
    """`TEN_DIGIT_MODULUS`, the `primes` list of `_hash` and the multiplier of `_spread` in randomness/index_map.py"""
    im = _parse("framework/randomness/index_map.py")
    cls = _cls(im, "IndexMap")
    modulus = primes = mult = None
    for n in cls.body:
        if isinstance(n, ast.Assign) and any(_attr_name(t) == "TEN_DIGIT_MODULUS" for t in n.targets):
            modulus = _lit(n.value)
    def _int_seq(v):
        return isinstance(v, (ast.List, ast.Tuple)) and len(v.elts) >= 5 and \
            all(isinstance(e, ast.Constant) and isinstance(e.value, int) for e in v.elts)
    # the bases of the hash: the literal list / tuple of integers bound inside `_hash`, or - when `_hash` refers to a
    # class- or module-level constant instead (a harmless hoisting) - the one integer sequence bound at that level
    for n in ast.walk(_fn(cls, "_hash")):
        if isinstance(n, ast.Assign) and _int_seq(n.value):
            primes = list(_lit(n.value))
    if primes is None:
        cands = [n for n in list(cls.body) + list(im.body) if isinstance(n, ast.Assign) and _int_seq(n.value)]
        used = {x.attr for x in ast.walk(_fn(cls, "_hash")) if isinstance(x, ast.Attribute)} | \
               {x.id for x in ast.walk(_fn(cls, "_hash")) if isinstance(x, ast.Name)}
        cands = [n for n in cands if any((_attr_name(t) or "") in used for t in n.targets)]
        if len(cands) == 1:
            primes = list(_lit(cands[0].value))
    for n in ast.walk(_fn(cls, "_spread")):
        if isinstance(n, ast.BinOp) and isinstance(n.op, ast.Mult):
            for side in (n.left, n.right):
                if isinstance(side, ast.Constant) and isinstance(side.value, int):
                    mult = side.value
    if modulus is None or primes is None or mult is None:
        raise TranslationError("index_map.py: TEN_DIGIT_MODULUS / primes / _spread multiplier not found")
    return modulus, primes, mult


# --------------------------------------------------------------------------- component manager order

def component_order_tables():
    """`setup_components` sets up `self._managers + self._components` (in that order); `SimulationContext.__init__`
    calls `add_managers` before `add_components`."""
    cm = _parse("framework/components/manager.py")
    mgr = _cls(cm, "ComponentManager")
    sc = _fn(mgr, "setup_components")
    order = None
    for n in ast.walk(sc):
        if isinstance(n, ast.Call) and _attr_name(n.func) == "_setup_components":
            for a in n.args:
                if isinstance(a, ast.BinOp) and isinstance(a.op, ast.Add):
                    order = [_attr_name(a.left) or ast.unparse(a.left), _attr_name(a.right) or ast.unparse(a.right)]
    if order is None:
        raise TranslationError("ComponentManager.setup_components: `_setup_components(builder, A + B)` not found")
    eng = _parse("framework/engine.py")
    init = _fn(_cls(eng, "SimulationContext"), "__init__")
    pos = {}
    for n in ast.walk(init):
        if isinstance(n, ast.Call) and _attr_name(n.func) in ("add_managers", "add_components"):
            pos.setdefault(_attr_name(n.func), (n.lineno, n.col_offset))
    if "add_managers" not in pos or "add_components" not in pos:
        raise TranslationError("SimulationContext.__init__: add_managers / add_components calls not found")
    return order, pos["add_managers"] < pos["add_components"]


# --------------------------------------------------------------------------- resource types

def resource_tables():
    rs = _parse("framework/resource.py")
    types = null = None
    for n in rs.body:
        if isinstance(n, ast.Assign) and len(n.targets) == 1 and isinstance(n.targets[0], ast.Name):
            if n.targets[0].id == "RESOURCE_TYPES":
                types = sorted(_lit(n.value))
            elif n.targets[0].id == "NULL_RESOURCE_TYPE":
                null = _lit(n.value)
    if types is None or null is None:
        raise TranslationError("resource.py: RESOURCE_TYPES / NULL_RESOURCE_TYPE not found")
    return types, null


# --------------------------------------------------------------------------- interactive stepping APIs

def interactive_tables():
    """Shape facts about interface/interactive.py that the stepping-API theorems (C01) rest on."""
    it = _parse("interface/interactive.py")
    ic = _cls(it, "InteractiveContext")
    # run_until: `while <clock time> <cmp> end_time:` containing a take_steps / step call
    ru = _fn(ic, "run_until")
    cmps = []
    for n in ast.walk(ru):
        if isinstance(n, ast.While) and isinstance(n.test, ast.Compare) and len(n.test.ops) == 1:
            left, right = ast.unparse(n.test.left), ast.unparse(n.test.comparators[0])
            if "time" in left and "end_time" in right and any(
                    isinstance(c, ast.Call) and _attr_name(c.func) in ("take_steps", "step") for c in ast.walk(n)):
                cmps.append(type(n.test.ops[0]).__name__)
    run_until_cmp = cmps[0] if len(cmps) == 1 else "none"      # "none": the number of steps is computed some other way
    # take_steps: the `step_size` parameter is never rebound and every self.step(...) call passes exactly it
    ts = _fn(ic, "take_steps")
    rebound = any(isinstance(n, (ast.Assign, ast.AugAssign, ast.AnnAssign)) and any(
        isinstance(t, ast.Name) and t.id == "step_size" for t in (n.targets if isinstance(n, ast.Assign) else [n.target]))
        for n in ast.walk(ts))
    calls = [n for n in ast.walk(ts) if isinstance(n, ast.Call) and _attr_name(n.func) == "step"]
    forwards = bool(calls) and all(
        (len(c.args) == 1 and isinstance(c.args[0], ast.Name) and c.args[0].id == "step_size" and not c.keywords)
        or (not c.args and len(c.keywords) == 1 and c.keywords[0].arg == "step_size"
            and isinstance(c.keywords[0].value, ast.Name) and c.keywords[0].value.id == "step_size") for c in calls)
    # step: after super().step(), the clock's step size is written back only under `if step_size is not None`
    st = _fn(ic, "step")
    seen_super, guards = False, []
    for stmt in st.body:
        has_super = any(isinstance(n, ast.Call) and isinstance(n.func, ast.Attribute) and n.func.attr == "step"
                        and isinstance(n.func.value, ast.Call) and _attr_name(n.func.value.func) == "super" for n in ast.walk(stmt))
        if has_super:
            seen_super = True
            continue
        if seen_super:
            writes = [n for n in ast.walk(stmt) if isinstance(n, ast.Assign)
                      and any("_clock_step_size" in ast.unparse(t) for t in n.targets)]
            if writes:
                guards.append(_restore_guard(stmt))
    if not seen_super:
        raise TranslationError("InteractiveContext.step: super().step() not found")
    guard = guards[0] if len(guards) == 1 else ("never" if not guards else "other")
    return run_until_cmp, (forwards and not rebound), guard


def _restore_guard(stmt) -> str:
    """condition under which InteractiveContext.step writes the old step size back after the engine step:
    "always" | "given" (`if step_size is not None`) | "givenAndNotRecomputed" (additionally not when the clock has
    just recomputed its own step: per-simulant clocks and a non-empty population, the condition of
    SimulationClock.step_forward) | "other" """
    if not isinstance(stmt, ast.If):
        return "always" if isinstance(stmt, ast.Assign) else "other"
    if stmt.orelse:
        return "other"
    flat = lambda e: "".join(ast.unparse(e).split())
    conj = stmt.test.values if isinstance(stmt.test, ast.BoolOp) and isinstance(stmt.test.op, ast.And) else [stmt.test]
    texts = [flat(c) for c in conj]
    if "step_sizeisnotNone" not in texts:
        return "other"
    rest = [t for t in texts if t != "step_sizeisnotNone"]
    if not rest:
        return "given"
    others = [c for c in conj if flat(c) != "step_sizeisnotNone"]
    return "givenAndNotRecomputed" if len(others) == 1 and _is_not_recomputed(others[0]) else "other"


def _is_not_recomputed(e) -> bool:
    """`not (self._clock._individual_clocks and not self.get_population(untracked=True).empty)`"""
    if not (isinstance(e, ast.UnaryOp) and isinstance(e.op, ast.Not)):
        return False
    b = e.operand
    if not (isinstance(b, ast.BoolOp) and isinstance(b.op, ast.And) and len(b.values) == 2):
        return False
    texts = sorted("".join(ast.unparse(v).split()) for v in b.values)
    return texts == sorted(["self._clock._individual_clocks", "notself.get_population(untracked=True).empty"])


# --------------------------------------------------------------------------- rendering

def _act(a):
    k, v = a
    if v is None:
        return "." + k
    return '.%s "%s"' % (k, v)


def render_tables() -> str:
    phases = lifecycle_phases()
    skel, run_cmp = context_skeletons()
    rows, dynamic = constraint_sites()
    n_buckets, default_prio, t_ok, s_ok, fwd = event_tables()
    layers, upd, comp_layer = config_tables()
    ru_cmp, ts_forwards, step_guarded = interactive_tables()
    res_types, null_type = resource_tables()
    setup_operands, managers_first = component_order_tables()
    im_modulus, im_primes, im_mult = index_map_tables()
    o = []
    o.append("/-! GENERATED by vcheck/translate.py from the working tree of the repository under test.")
    o.append("    Never edited by hand; rewritten (when changed) by every run of `./check`. -/")
    o.append("namespace Viv.Gen\n")
    o.append("/-- `add_phase` calls, in declaration order: (phase, states, loop) -/")
    o.append("def phases : List (String × List String × Bool) := [")
    o.append(",\n".join('  ("%s", %s, %s)' % (nm, _lstr(st), "true" if lp else "false") for nm, st, lp in phases))
    o.append("]\n")
    o.append("/-- framework actions of a `SimulationContext` method, in evaluation order -/")
    o.append("inductive Act")
    o.append("  | set (s : String) | emit (e : String) | create | getPop | stepBack | stepFwd | freeze | setupComponents")
    o.append("  | loopBegin (phase : String) | setVar | emitVar | loopEnd | callStep")
    o.append("  deriving Repr, DecidableEq\n")
    o.append("def skeleton : List (String × List Act) := [")
    o.append(",\n".join('  ("%s", [%s])' % (m, ", ".join(_act(a) for a in s)) for m, s in skel.items()))
    o.append("]\n")
    o.append("/-- comparison in `run()`'s `while <time> ? <stop>` loop (Python ast operator name) -/")
    o.append('def runLoopCmp : String := "%s"\n' % run_cmp)
    o.append("inductive Mode | allow | restrict deriving DecidableEq, Repr\n")
    o.append("/-- one `add_constraint` call site with a literal state list -/")
    o.append("structure Con where")
    o.append("  file : String\n  line : Nat   -- ordinal of the call site inside `file`\n  method : String\n  mode : Mode\n  states : List String")
    o.append("  deriving Repr, DecidableEq\n")
    # `line` holds the ORDINAL of the call site inside its file (0, 1, …), not the source line, so that edits which
    # merely shift lines do not change the tables
    def _ordinals(rs):
        seen, out = {}, []
        for r in rs:
            k = seen.get(r[0], 0)
            seen[r[0]] = k + 1
            out.append((r[0], k) + tuple(r[2:]))
        return out
    o.append("def constraints : List Con := [")
    o.append(",\n".join('  ⟨"%s", %d, "%s", .%s, %s⟩' % (f, l, t, m, _lstr(s)) for f, l, t, m, s in _ordinals(rows)))
    o.append("]\n")
    o.append("/-- call sites whose state list is computed at run time: (file, ordinal, method, mode, expression) -/")
    o.append("def dynamicConstraints : List (String × Nat × String × Mode × String) := [")
    o.append(",\n".join('  ("%s", %d, "%s", .%s, "%s")' % (f, l, t, m, e) for f, l, t, m, e in _ordinals(dynamic)))
    o.append("]\n")
    o.append("/-- number of priority buckets per event channel and the default listener priority -/")
    o.append("def nBuckets : Nat := %d" % n_buckets)
    o.append("def defaultPriority : Nat := %d" % default_prio)
    o.append("/-- `Event(..., time = clock() + step_size(), step_size = step_size())` in `EventChannel.emit` -/")
    o.append("def eventTimeIsClockPlusStep : Bool := %s" % ("true" if t_ok else "false"))
    o.append("def eventStepIsStep : Bool := %s" % ("true" if s_ok else "false"))
    o.append("/-- `for priority_bucket in self.listeners` walks the buckets in list order -/")
    o.append("def bucketsWalkedForward : Bool := %s\n" % ("true" if fwd else "false"))
    o.append("/-- `LayeredConfigTree(layers=...)`: lowest priority first -/")
    o.append("def configLayers : List String := %s" % _lstr(layers))
    o.append("/-- `update(<what>, layer=..., source=...)` calls in configuration.py, in source order -/")
    o.append("def configUpdates : List (String × String × String) := [")
    o.append(",\n".join('  ("%s", "%s", "%s")' % (w.replace('"', "'"), l, s) for _, w, l, s in upd))
    o.append("]")
    o.append("/-- layer written by `ComponentManager.apply_configuration_defaults` -/")
    o.append('def componentDefaultsLayer : String := "%s"\n' % comp_layer)
    o.append("/-- constants of randomness/index_map.py: `TEN_DIGIT_MODULUS`, `primes` in `_hash`, the multiplier in `_spread` -/")
    o.append("def indexMapTenDigitModulus : Int := %d" % im_modulus)
    o.append("def indexMapPrimes : List Int := [%s]" % ", ".join(str(x) for x in im_primes))
    o.append("def indexMapSpreadMul : Int := %d\n" % im_mult)
    o.append("/-- operands of `self._setup_components(builder, A + B)` in `ComponentManager.setup_components`, in order -/")
    o.append("def setupComponentsOperands : List String := %s" % _lstr(setup_operands))
    o.append("/-- `SimulationContext.__init__` calls `add_managers` before `add_components` -/")
    o.append("def managersAddedBeforeComponents : Bool := %s\n" % ("true" if managers_first else "false"))
    o.append("/-- `RESOURCE_TYPES` (a set; rendered sorted) and `NULL_RESOURCE_TYPE` of framework/resource.py -/")
    o.append("def resourceTypes : List String := %s" % _lstr(res_types))
    o.append('def nullResourceType : String := "%s"\n' % null_type)
    o.append("/-- `InteractiveContext.run_until`: comparison of its `while <time> ? end_time` stepping loop (\"none\" = no such loop) -/")
    o.append('def runUntilLoopCmp : String := "%s"' % ru_cmp)
    o.append("/-- `take_steps` never rebinds `step_size` and passes exactly it to every `self.step(...)` -/")
    o.append("def takeStepsForwardsStepSize : Bool := %s" % ("true" if ts_forwards else "false"))
    o.append("/-- when `InteractiveContext.step` writes the old step size back after the engine step: always | given (`if step_size")
    o.append("is not None`) | givenAndNotRecomputed (and not when per-simulant clocks with a non-empty population have just")
    o.append("recomputed the step, the condition of `SimulationClock.step_forward`) | never | other -/")
    o.append('def interactiveStepRestoreGuard : String := "%s"\n' % step_guarded)
    o.append("end Viv.Gen\n")
    return "\n".join(o)


def write_if_changed(path: pathlib.Path, content: str) -> bool:
    if path.exists() and path.read_text() == content:
        return False
    path.parent.mkdir(parents=True, exist_ok=True)
    fd, tmp = tempfile.mkstemp(dir=str(path.parent), prefix=".gen.")
    with os.fdopen(fd, "w") as f:
        f.write(content)
    os.replace(tmp, path)
    return True


def render_all() -> dict:
    """every generated Lean file: {path relative to lean/: content}. `Gen/Tables.lean` = literal tables read off the
    source (this module); `Gen/Src.lean` = the Python ast of the listed functions as Lean data (py2lean.py)."""
    from . import py2lean
    return {"VivModel/Gen/Tables.lean": render_tables(), "VivModel/Gen/Src.lean": py2lean.render_src()}


def translate() -> dict:
    """Regenerate Gen/*.lean. Returns {'changed': [...], 'error': str|None}."""
    out = {"changed": [], "error": None}
    try:
        files = render_all()
    except TranslationError as e:
        out["error"] = str(e)
        return out
    for rel, content in files.items():
        target = paths.LEAN / rel
        if write_if_changed(target, content):
            out["changed"].append("lean/" + rel)
    return out


if __name__ == "__main__":
    print(translate())
