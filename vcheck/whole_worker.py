"""Worker process for the WHOLE streams of C01 and C18: ONE real run of the probe components of `vcheck/wholekit.py`
under a given process history, observed stage by stage in the canonical form the composed Lean model
(`lean/VivModel/Model/Whole.lean`, `Driver/Whole.lean`) is compared with.

    python -m vcheck.whole_worker  < job.json  > ... @@VCHECK@@<result.json>

job: {"cfg": a WHOLE configuration (vcheck/props/whole.py),
      "mode": "step" | "run" | "interactive_step" | "interactive_take" | "interactive_run" | "run_backup"  (wholekit.run),
      "noise": int   (seeds and consumes the process-global numpy / random generators before the run, between the stages
                      and – through the passive component wholekit.WProbe – inside every step),
      "probe": bool  (false: no extra component at all, exactly what ./check WHOLE runs),
      "prior": [{"cfg": ANOTHER WHOLE configuration, "style": "finished" | "unfinished" | "interleaved", "mode": ...}, ...]
               earlier simulations of this process: run to the end and finalized / initial population + one step and left
               alive / initial population now and one step in the MIDDLE of every step of the simulation under test,
      C18: "save": {"pattern": ".../wb%d.pkl", "how": "write_backup" | "run_backup"}   this process writes the backup of
                   EVERY boundary (`write_backup` after every stage, or the engine's own `run(backup_path, backup_freq)` loop
                   whose file the probe copies away at the start of the next step) and carries on to the end,
           "resume": {"path": backup file, "at": n, "mode": "step" | "take" | "run",    `dill.load` and continue
                      "then_save": {"after": k, "path": file}}   ... for k steps only, write ANOTHER backup and stop}
result: the observation of `wholekit.run` / `wholekit.resume` + {"worker_error", "trace", "hashseed", "context_name",
        "saved": boundaries with a backup file, "skipped": boundaries lost to CPython's pickler assertion}
The process is started with the PYTHONHASHSEED the parent chose. The result is the last stdout line starting with @@VCHECK@@.
"""
from __future__ import annotations

import concurrent.futures as cf
import json
import os
import random
import shutil
import subprocess
import sys
import tempfile

from . import paths

MARK = "@@VCHECK@@"


class WholeWorkerInfraError(Exception):
    """the worker process died without a verdict (OOM kill, interpreter failure) twice in a row"""


# ---------------------------------------------------------------------------------------------- parent side
def _once(job: dict, hashseed, timeout) -> dict:
    env = dict(os.environ)
    env["PYTHONHASHSEED"] = str(hashseed)
    env["PYTHONDONTWRITEBYTECODE"] = "1"
    try:
        r = subprocess.run([sys.executable, "-W", "ignore", "-m", "vcheck.whole_worker"], input=json.dumps(job),
                           capture_output=True, text=True, env=env, cwd=str(paths.VERIF), timeout=timeout)
    except subprocess.TimeoutExpired:
        return {"worker_error": "worker timeout", "__infra__": "timeout"}
    try:
        line = [l for l in r.stdout.splitlines() if l.startswith(MARK)][-1]
        return json.loads(line[len(MARK):])
    except Exception:  # noqa: BLE001
        return {"worker_error": "worker crashed: " + (r.stderr or r.stdout)[-800:], "__infra__": "crash"}


def run_job(job: dict, hashseed, timeout=60) -> dict:
    """one retry when the process dies or times out (machine load; a run of the kit takes 1-3 s of CPU time); a second
    timeout is reported as the implementation hanging (the index map's collision loop has no bound), a second crash
    without a Python exception is an infrastructure error (no verdict)"""
    r = _once(job, hashseed, timeout)
    if r.get("__infra__"):
        r = _once(job, hashseed, timeout * 2.5)
        if r.get("__infra__") == "crash" and "Error" not in r["worker_error"]:
            raise WholeWorkerInfraError(r["worker_error"])
    return r


def run_jobs(jobs: list, parallel=6) -> list:
    """jobs: [(job, hashseed), ...] -> results in order, each in its own fresh process"""
    if not jobs:
        return []
    with cf.ThreadPoolExecutor(parallel) as ex:
        futs = [ex.submit(run_job, j, hs) for j, hs in jobs]
        return [f.result() for f in futs]


# ---------------------------------------------------------------------------------------------- cases (parent side)
STEP_LIKE = ["step", "interactive_step", "interactive_take"]          # a table after every step
RUN_LIKE = ["run", "interactive_run", "run_backup"]                    # the final table only
MODES = STEP_LIKE + RUN_LIKE
PRIOR_STYLES = ["finished", "unfinished", "interleaved"]
BASELINE = {"hashseed": 0, "noise": 0, "mode": "step", "probe": False, "prior": []}
STAGE_FIELDS = ["clocks", "positions_by_stage", "results", "pvals", "clk"]


def gen_cfg(rng: random.Random, tier: str, flavour: int = 0, max_stages=None) -> dict:
    """a WHOLE configuration from the WHOLE check's own generator; `flavour` cycles through the places where process
    state could enter (0 any; 1 key columns + a small map: hash collisions are resolved; 2 the block is 10 * population;
    3 observer or value pipeline; 4 DateTimeClock with per-simulant clocks), always with at least two steps"""
    from .props import whole
    W = whole.Whole()
    best = None
    for _ in range(60):
        cfg = W.generate(rng, 0, tier)
        stages = ((cfg["stop"] - cfg["start"] + cfg["step"] - 1) // cfg["step"]) if cfg.get("dt") else cfg["nSteps"]
        if stages < 2 or cfg["pop"] + sum(map(sum, cfg["births"])) < 2 or (max_stages and stages > max_stages):
            continue
        best = best or cfg
        total = whole.total_simulants(cfg)
        # the refusals that can be read off the configuration (duplicate keys: `entrance` alone, few key bits, two creation
        # sites sharing the additional key) are left to flavour 0: the other flavours want runs that get somewhere
        clean = (cfg["keyCols"] != [0] and cfg["keyBits"] >= (10 if cfg["keyFloat"] else 16)
                 and (cfg["akPerPhase"] or all(sum(1 for x in r if x) <= 1 for r in cfg["births"])))
        if flavour % 5 and not (clean or not cfg["keyCols"]):
            continue
        ok = [True,
              bool(cfg["keyCols"]) and cfg["keyCols"] != [0] and whole.block_size(cfg) <= 5 * total and total >= 6,
              10 * cfg["pop"] > cfg["mapSize"] and bool(cfg["keyCols"]),
              bool((cfg.get("obs") and 3 in cfg["order"]) or cfg.get("pipe")),
              bool(cfg.get("dt"))][flavour % 5]
        if ok:
            return cfg
    return best or whole.variant()


def sibling(rng: random.Random, cfg: dict) -> dict:
    """ANOTHER scenario of the same model: the same seed, clock and kit (so the same stream names and seed strings), but
    another population size, index-map size, births schedule, mortality table and component order - what somebody
    comparing scenarios under common random numbers runs in one process"""
    import copy
    from .props import whole
    for _ in range(30):
        o = copy.deepcopy(cfg)
        o["pop"] = max(0, min(8 if cfg.get("dt") else 12, cfg["pop"] + rng.choice([-3, -2, -1, 1, 2, 3])))
        o["births"] = [[(x + 1 + k) % 3 for k, x in enumerate(r)] for r in cfg["births"]] + [[1, 0, 2, 0]]
        o["mortP"] = [[(x * 7 + 3) % 17 for x in r] for r in cfg["mortP"]]
        o["order"] = list(reversed(cfg["order"]))
        total = whole.total_simulants(o)
        o["mapSize"] = rng.choice([p for p in whole.PRIMES if p != cfg["mapSize"] and (p >= 2 * total + 3 or not o["keyCols"])][:12] or [2003])
        if whole.crn_safe(o) and o != cfg:
            return o
    return whole.variant(seed=cfg["seed"], addSeed=cfg.get("addSeed"))


def gen_prior(rng: random.Random, cfg: dict, tier: str) -> list:
    """0-2 earlier simulations of the process, each with a DIFFERENT configuration (a sibling scenario or an unrelated one)"""
    out = []
    for _ in range(rng.choice([0, 1, 1, 2])):
        pc = sibling(rng, cfg) if rng.random() < 0.6 else gen_cfg(rng, "quick", 0, max_stages=4)
        out.append({"cfg": pc, "style": rng.choice(PRIOR_STYLES), "mode": rng.choice(["step", "run", "interactive_step"])})
    return out


def gen_history(rng: random.Random, cfg: dict, mode: str, tier: str, prior=None) -> dict:
    return {"hashseed": rng.choice([1, 2, rng.randint(3, 10_000), "random"]), "noise": rng.randint(1, 10_000), "mode": mode,
            "probe": rng.random() < 0.85, "prior": gen_prior(rng, cfg, tier) if prior is None else prior}


def gen_histories(rng: random.Random, cfg: dict, tier: str, n=4) -> list:
    """the baseline (fresh process, hash seed 0, nothing else in the process, no extra component: what ./check WHOLE runs)
    and `n` other histories: a `step()` loop after a sibling scenario, one `run`-like drive, one InteractiveContext
    drive, the rest at random"""
    rb = [m for m in ("run", "run_backup") if not (m == "run_backup" and cfg["pop"] == 0)]
    modes = ["step", rng.choice(rb), rng.choice(["interactive_step", "interactive_take", "interactive_run"])]
    modes += [rng.choice([m for m in MODES if not (m == "run_backup" and cfg["pop"] == 0)]) for _ in range(max(0, n - 3))]
    hs = []
    for k, m in enumerate(modes[:n]):
        prior = None
        if k == 0:
            prior = [{"cfg": sibling(rng, cfg), "style": rng.choice(["finished", "unfinished"]), "mode": "step"}] + gen_prior(rng, cfg, tier)[:1]
        hs.append(gen_history(rng, cfg, m, tier, prior))
    rng.shuffle(hs)
    return [dict(BASELINE)] + hs


def job_of(cfg: dict, h: dict) -> tuple:
    return ({"cfg": cfg, "mode": h["mode"], "noise": h["noise"], "probe": h.get("probe", True), "prior": h.get("prior") or []}, h["hashseed"])


def stages_of(o: dict) -> list:
    """[(table, clock, positions, results, pipeline log, clocks) per recorded stage] of a worker observation"""
    tabs = ([o["init"]] if o.get("init") is not None else []) + list(o.get("steps") or [])
    cols = [o.get(f) or [] for f in STAGE_FIELDS]
    return [[t] + [c[i] if i < len(c) else None for c in cols] for i, t in enumerate(tabs)]


def as_whole_obs(stages: list, error, run_like: bool, size=None, final=None, run_error=None) -> dict:
    """the observation shape `Whole.compare` reads: `stages` (absolute, from the initial population) are compared one by
    one, `final` (a stage) with the model's own `run()` from a fresh initial population"""
    o = {"init": stages[0][0] if stages else None, "steps": [s[0] for s in stages[1:]], "error": error, "size": size,
         "run_final": None, "run_clock": None, "run_error": run_error, "run_positions": None, "run_results": None,
         "run_pvals": None, "run_clk": None}
    for j, f in enumerate(STAGE_FIELDS):
        o[f] = [s[j + 1] for s in stages]
    if final is not None:
        o.update(run_final=final[0], run_clock=final[1], run_positions=final[2], run_results=final[3], run_pvals=final[4], run_clk=final[5])
    return o


def whole_obs_of_run(r: dict) -> dict:
    """one complete real run (any drive) in the shape `Whole.compare` reads"""
    st = stages_of(r)
    err = r.get("error")
    if r.get("mode") in RUN_LIKE:
        early = err if err and err["at"] in ("setup", "init") else None
        return as_whole_obs(st[:1], early, True, r.get("size"), st[-1] if len(st) > 1 else None, err)
    return as_whole_obs(st, err, False, r.get("size"))


def err_class(e):
    return None if not e else [e["at"] if e["at"] in ("setup", "init", "finalize", "restore") else "step", e["class"]]


def diff_runs(base: dict, r: dict, first=0) -> str | None:
    """the property on two real runs of ONE configuration: every stage both recorded (from stage `first` of the base on)
    must be identical - state table, clock, index-map positions, results, pipeline log, per-simulant clocks; a raising run
    must raise at the same stage with the same class. None = identical"""
    bs, rs = stages_of(base)[first:], stages_of(r)
    names = ["state table"] + STAGE_FIELDS
    be, re_ = base.get("error"), r.get("error")
    if r.get("mode") in RUN_LIKE:
        pairs = [(first, bs[0] if bs else None, rs[0] if rs else None)]
        if len(rs) > 1 and bs:
            pairs.append((first + len(bs) - 1, bs[-1], rs[-1]))
        if (len(rs) > 1) != (be is None or be["at"] == "finalize") and not (re_ and re_["at"] in ("setup", "init")):
            return f"the drive {r.get('mode')} {'finished' if len(rs) > 1 else 'raised ' + str(re_)}, the step-by-step run {'finished' if be is None else 'raised ' + str(be)}"
    else:
        if len(bs) != len(rs):
            return f"{len(rs)} stages recorded ({re_}), the baseline has {len(bs)} from stage {first} on ({be})"
        pairs = [(first + k, a, b) for k, (a, b) in enumerate(zip(bs, rs))]
    for k, a, b in pairs:
        if a is None or b is None:
            if a is not b:
                return f"stage {k}: {'missing' if b is None else 'present'} (baseline {'missing' if a is None else 'present'})"
            continue
        for nm, x, y in zip(names, a, b):
            if x != y:
                return f"stage {k}: {nm} differs: {json.dumps(y)[:300]} != baseline {json.dumps(x)[:300]}"
    if r.get("mode") in RUN_LIKE:
        bc = None if be is None else be["class"]
        rc = None if re_ is None else re_["class"]
        if (be is None or be["at"] != "finalize") and bc != rc:
            return f"raised {re_}, baseline {be}"
    elif err_class(be) != err_class(re_) or (be and re_ and be["at"] != re_["at"]):
        return f"raised {re_}, baseline {be}"
    if base.get("size") != r.get("size"):
        return f"block size {r.get('size')} != baseline {base.get('size')}"
    return None


# ---------------------------------------------------------------------------------------------- worker side
class _Stop(BaseException):
    """the second backup of a twice-interrupted run has been written: this process ends here"""


def _cpython_assert(tb: str) -> bool:
    """CPython 3.12's pickler asserts when the object graph holds two EMPTY buffers with the same id (protocol 5, empty
    numpy arrays of an empty population): an interpreter defect, not vivarium's (see C18)"""
    return "in memoize" in tb and "pickle.py" in tb


def main():
    job = json.load(sys.stdin)
    real_stdout = sys.stdout
    sys.stdout = open(os.devnull, "w")
    out = {"worker_error": None, "trace": "", "hashseed": os.environ.get("PYTHONHASHSEED"), "saved": [], "skipped": []}
    scratch = tempfile.mkdtemp(prefix="vww-")
    try:
        import numpy as np
        noise = int(job.get("noise", 0))
        np.random.seed(noise % (2 ** 31))
        random.seed(noise)
        np.random.random(noise % 5)
        from . import wholekit as wk
        import dill
        cfg, mode = job["cfg"], job.get("mode", "step")
        keep = []                         # every context this process ever made stays alive

        def consume(k):
            np.random.random((noise + k) % 7 + 1)
            random.random()
            if noise % 3 == 0:
                np.random.seed((noise + 31 * k) % 1000)
                random.seed(k)

        # ---- earlier simulations of this process (other configurations, same kit: the same stream / component / pipeline names)
        for k, pr in enumerate(job.get("prior") or []):
            got = []
            style = pr.get("style", "finished")

            def grab(stage, sim, o, got=got):
                if stage == "created":
                    got.append(sim)
                    keep.append(sim)
            if style == "finished":
                wk.run(pr["cfg"], pr.get("mode", "step"), hook=grab, clear_cache=False)
            else:
                o = wk.run(pr["cfg"], "init", hook=grab, clear_cache=False)
                if o["init"] is not None and o["error"] is None and got:
                    if style == "interleaved":
                        wk.NEIGHBOURS.append([got[0], pr["cfg"]])
                    else:
                        try:
                            if pr["cfg"]["nSteps"] > 0 and wk.tick(pr["cfg"], got[0].current_time) < pr["cfg"]["stop"]:
                                got[0].step()
                        except Exception:  # noqa: BLE001 - the earlier simulation may be refused: its own business
                            pass
            consume(100 + k)

        save = job.get("save")
        res = job.get("resume")

        def backup(sim, n, path):
            try:
                sim.write_backup(path)
                out["saved"].append(n)
            except AssertionError:
                import traceback
                if not _cpython_assert(traceback.format_exc()):
                    raise
                out["skipped"].append(n)
                if os.path.exists(path):
                    os.unlink(path)

        if res:
            with open(res["path"], "rb") as f:
                sim = dill.load(f)
            keep.append(sim)
            for c in sim._component_manager._components:
                if isinstance(c, wk.WProbe):
                    c.noise, c.copy_from, c.copy_to = noise, None, None
            out["context_name"] = sim.name
            ts = res.get("then_save")
            stash = {}

            def hook(stage, s, o):
                consume(stage if isinstance(stage, int) else 0)
                if ts and isinstance(stage, int) and stage == int(res["at"]) + int(ts["after"]):
                    # second interruption: a few steps were taken, ANOTHER backup is written and the process stops
                    stash["obs"] = o
                    backup(s, stage, ts["path"])
                    raise _Stop()
            try:
                obs = wk.resume(cfg, sim, int(res["at"]), "step" if ts else res.get("mode", "step"), hook)
            except _Stop:
                obs = stash["obs"]
                obs["stopped"] = True
        else:
            probe = wk.WProbe(noise) if job.get("probe", True) else None
            current = os.path.join(scratch, "current.pkl")

            def hook(stage, sim, o):
                if stage == "created":
                    keep.append(sim)
                    out["context_name"] = sim.name
                    return
                consume(stage if isinstance(stage, int) else 0)
                if save and isinstance(stage, int) and (save["how"] == "write_backup" or stage == 0):
                    backup(sim, stage, save["pattern"] % stage)
                if save and save["how"] == "run_backup" and stage == 0 and probe is not None:
                    probe.copy_from, probe.copy_to = current, save["pattern"]
            obs = wk.run(cfg, mode, hook=hook, extra=[probe] if probe else [], clear_cache=False, backup_path=current)
            if save and save["how"] == "run_backup" and probe is not None:
                n = probe.steps_started
                if obs["error"] is None and n and os.path.exists(current):
                    shutil.copyfile(current, save["pattern"] % n)      # the backup written after the last step
                out["saved"] = sorted(set(out["saved"]) | {k for k in range(1, n + 1) if os.path.exists(save["pattern"] % k)})
                probe.copy_from = None
        out.update(obs)
    except BaseException as e:  # noqa: BLE001
        import traceback
        out["worker_error"] = f"{type(e).__name__}: {e}"[:600]
        out["trace"] = traceback.format_exc()[-2000:]
    finally:
        shutil.rmtree(scratch, ignore_errors=True)
    real_stdout.write("\n" + MARK + json.dumps(out) + "\n")
    real_stdout.flush()


if __name__ == "__main__":
    main()
