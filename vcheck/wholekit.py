"""Probe components + runner for the END-TO-END check WHOLE (lean/VivModel/Model/Whole.lean).

Every computation a component does here is EXACT (no float rounding anywhere), so that the Lean model can
reproduce the complete state table after every time step from the configuration alone:

* `WPop`      columns `key`, `entrance`, `sex`.
              `key`      = floor(d * 2**B) (int64 column) or floor(d * 2**B) / 2**B (float64 column, B <= 20) where d is
                           the POSITIONAL draw of the CRN-initialising stream `wpop_crn` (additional key `key`, or
                           `key<phase>` per creation site); multiplying by a power of two and floor are exact.
              `entrance` = SimulantData.creation_time (an int: SimpleClock with integer start / step).
              then `register_simulants(df[key_columns])` (when key columns are configured), then
              `sex`      = stream `wpop_sex`.choice(index, ["m", "f"], p=[a/16, (16-a)/16], additional_key="sex").
              Births: a listener on each of the four time-step channels (own priority per channel) calls the real
              simulant creator with `births[step][phase]` (step = (clock - start) // step_size: a function of the clock,
              no counter of its own).
* `WMort`     column `exit` (float, NaN = not left). A listener on one configured channel: the TRACKED simulants of
              `event.index` are filtered with the real `filter_for_probability(index, p)` (stream `wmort`, additional key
              None) where p[i] = mortP[sex][state] / 16; those kept are untracked and get `exit = event.time`.
* `WDisease`  column `wstate`; initial state = stream `wdis_init`.choice(index, states, p = one row per simulant
              initW[sex] / 16). A listener on one configured channel calls the real `Machine.transition(event.index,
              event.time)`; the machine's transitions have probability w[sex] / 16 (a `Transition` sub-class reading the
              `sex` column through its own population view). Weights are sixteenths: every division the framework does
              (by 1, or by a power-of-two total where the generator allows no null transition) is exact.

OPT-IN extensions (absent / None = today's behaviour exactly):

* `cfg["age"] = {"bits": b}`  WPop creates an int64 column `age` = floor(d * 2**b) of the SAME positional CRN draw d as `key`.
* `cfg["pipe"]`               WMort registers the value producer `wmort.p` whose source is a REAL lookup table built with
                              `builder.lookup.build_table` (key columns among sex / wstate, optionally the parameter column
                              `age` with integer bin edges, one value column p = n / den, den a power of two); the probability
                              handed to `filter_for_probability` is the pipeline's value. mode 0: replace_combiner, no
                              post-processor, source = the LookupTable object itself (src 0) or a bound method calling it
                              (src 1); mode 1: list_combiner + union_post_processor, source = [table(index)].
                              `cfg["pipe"]["mods"][k]` is the modifier the component `WMod(k)` (component id 4 + k in
                              `cfg["order"]`) registers: kind 0 value * w[sex]/den, 1 value + w[sex]/den, 2 w[sex]/den
                              (replace-style); in mode 1 every modifier contributes the probability w[sex]/den.
* `cfg["obs"]`                WObserver (component id 3, an `Observer`) registers stratifications (by sex, by disease state, by
                              a mapper, by age bin) and adding observations (count / sum of an integer column; pop_filter;
                              `when` = any of the four phases; `to_observe` every m-th step). `sim.get_results()` is read
                              after every step.

* `cfg["dt"] = {"std": h, "mods": [[h or None per state], …]}`
                              a `DateTimeClock` instead of the `SimpleClock`: `start` / `step` / `stop` are whole HOURS
                              since 2021-01-01 00:00 (start and stop multiples of 24, the minimum step a multiple of 3 –
                              `step / 24` days is exact), `std` the standard step in hours (0 = none); `WStep` (component
                              id 7) registers one step-size modifier per entry of `mods`: modifier j asks for
                              `mods[j][state]` hours (None = NaT) for every simulant it is asked about, so the clock keeps
                              PER-SIMULANT next-event times and the events carry only the due simulants. `entrance` /
                              `exit` are stored as hours; seed strings carry `str(Timestamp)`, the index map is salted
                              with the Timestamp.

Everything stays exact: sixteenths / small dyadic factors, products of at most four of them.

case (JSON): see `vcheck/props/whole.py::Whole.generate`.
"""
from __future__ import annotations

from . import impl

impl.load()

import numpy as np  # noqa: E402
import pandas as pd  # noqa: E402
from vivarium import Component  # noqa: E402
from vivarium.framework.engine import SimulationContext  # noqa: E402
from vivarium.interface.interactive import InteractiveContext  # noqa: E402
from vivarium.framework.results.observer import Observer  # noqa: E402
from vivarium.framework.state_machine import Machine, State, Transition  # noqa: E402
from vivarium.framework.values import list_combiner, replace_combiner, union_post_processor  # noqa: E402

PHASES = ["time_step__prepare", "time_step", "time_step__cleanup", "collect_metrics"]
SEXES = ["m", "f"]
STATE_NAMES = ["s0", "s1", "s2", "s3"]
KEY_COLUMN_NAMES = ["entrance", "key"]
PIPE_NAME = "wmort.p"
PIPE_KEY_NAMES = ["sex", "wstate"]
FILTERS = ["", "tracked == True", 'wstate == "s1"', 'sex == "f" and tracked == True', "tracked == False"]
FILTER_COLUMNS = [[], ["tracked"], ["wstate"], ["sex", "tracked"], ["tracked"]]


EPOCH = pd.Timestamp(2021, 1, 1)


def tick(cfg, t):
    """a clock value as an integer: itself (SimpleClock) or whole hours since 2021-01-01 (DateTimeClock)"""
    if cfg.get("dt"):
        h = (t - EPOCH) / pd.Timedelta(hours=1)
        return int(h) if float(h) == int(h) else float(h)
    return int(t)


def step_number(cfg, clock):
    return (tick(cfg, clock) - cfg["start"]) // cfg["step"]


class WPop(Component):
    def __init__(self, cfg):
        super().__init__()
        self.cfg = cfg

    @property
    def name(self):
        return "wpop"

    @property
    def columns_created(self):
        return ["key", "entrance", "sex"] + (["age"] if self.cfg.get("age") else [])

    def setup(self, builder):
        self.clock = builder.time.clock()
        self.creator = builder.population.get_simulant_creator()
        self.crn = builder.randomness.get_stream("wpop_crn", initializes_crn_attributes=True)
        self.rs = builder.randomness.get_stream("wpop_sex")
        self.register = builder.randomness.register_simulants
        self.keys = [KEY_COLUMN_NAMES[k] for k in self.cfg["keyCols"]]
        self.site = "init"
        for ph, name in enumerate(PHASES):
            builder.event.register_listener(name, getattr(self, f"births{ph}"), priority=self.cfg["birthPrio"][ph])

    def on_initialize_simulants(self, pop_data):
        cfg = self.cfg
        idx = pop_data.index
        n = len(idx)
        B = cfg["keyBits"]
        ak = "key" + (self.site if cfg["akPerPhase"] else "")
        if n:
            d = self.crn.get_draw(idx, ak)
            k = np.floor(d * float(2 ** B))
            key = (k / float(2 ** B)) if cfg["keyFloat"] else k.astype("int64")
        else:
            key = pd.Series([], dtype=float if cfg["keyFloat"] else "int64", index=idx)
        df = pd.DataFrame({"key": key, "entrance": pd.Series(tick(cfg, pop_data.creation_time), index=idx, dtype="int64")}, index=idx)
        if cfg.get("age"):
            if n:
                df["age"] = np.floor(d * float(2 ** cfg["age"]["bits"])).astype("int64")
            else:
                df["age"] = pd.Series([], dtype="int64", index=idx)
        if self.keys:
            self.register(df[self.keys])
        if n:
            a = cfg["sexW"]
            df["sex"] = self.rs.choice(idx, SEXES, p=[a / 16.0, (16 - a) / 16.0], additional_key="sex")
        else:
            df["sex"] = pd.Series([], dtype=object, index=idx)
        self.population_view.update(df)

    def births0(self, event):
        self.births(0)

    def births1(self, event):
        self.births(1)

    def births2(self, event):
        self.births(2)

    def births3(self, event):
        self.births(3)

    def births(self, phase):
        sched = self.cfg["births"]
        s = step_number(self.cfg, self.clock())
        if 0 <= s < len(sched):
            self.site = str(phase)
            try:
                self.creator(sched[s][phase], {"sim_state": "time_step"})
            finally:
                self.site = "init"


class WMort(Component):
    def __init__(self, cfg):
        super().__init__()
        self.cfg = cfg

    @property
    def name(self):
        return "wmort"

    @property
    def columns_created(self):
        return ["exit"]

    @property
    def columns_required(self):
        return ["tracked", "sex", "wstate"] + (["age"] if self.cfg.get("age") else [])

    def setup(self, builder):
        self.rs = builder.randomness.get_stream("wmort")
        builder.event.register_listener(PHASES[self.cfg["mortPhase"]], self.act, priority=self.cfg["mortPrio"])
        self.pipeline = None
        self.plog = None
        pipe = self.cfg.get("pipe")
        if pipe:
            keys = [PIPE_KEY_NAMES[k] for k in pipe["keys"]]
            edges = pipe.get("edges")
            recs = []
            for row in pipe["rows"]:
                rec = {}
                for k, cell in zip(pipe["keys"], row):
                    rec[PIPE_KEY_NAMES[k]] = SEXES[cell] if k == 0 else STATE_NAMES[cell]
                if edges:
                    b = row[len(keys)]
                    rec["age_start"], rec["age_end"] = edges[b], edges[b + 1]
                rec["p"] = row[-1] / float(pipe["den"])
                recs.append(rec)
            data = pd.DataFrame.from_records(recs, columns=keys + (["age_start", "age_end"] if edges else []) + ["p"])
            self.table = builder.lookup.build_table(data, key_columns=keys, parameter_columns=["age"] if edges else [],
                                                    value_columns=["p"])
            req = keys + (["age"] if edges else [])
            if pipe["mode"] == 1:
                self.pipeline = builder.value.register_value_producer(
                    PIPE_NAME, source=self._src_list, requires_columns=req, preferred_combiner=list_combiner,
                    preferred_post_processor=union_post_processor)
            else:
                self.pipeline = builder.value.register_value_producer(
                    PIPE_NAME, source=self.table if pipe["src"] == 0 else self._src, requires_columns=req,
                    preferred_combiner=replace_combiner)

    def _src(self, index):
        return self.table(index)

    def _src_list(self, index):
        return [self.table(index)]

    def on_initialize_simulants(self, pop_data):
        self.population_view.update(pd.Series(np.nan, index=pop_data.index, name="exit", dtype=float))

    def act(self, event):
        pop = self.population_view.get(event.index, query="tracked == True")
        if self.pipeline is not None:
            if len(pop) == 0:
                return
            p = np.asarray(self.pipeline(pop.index), dtype=float)
            ages = pop["age"] if "age" in pop.columns else [0] * len(pop)
            self.plog = [[int(l), SEXES.index(s), STATE_NAMES.index(w), int(a)] + list(float(x).as_integer_ratio())
                         for l, s, w, a, x in zip(pop.index, pop["sex"], pop["wstate"], ages, p)]
        else:
            table = self.cfg["mortP"]
            p = np.array([table[SEXES.index(s)][STATE_NAMES.index(w)] / 16.0 for s, w in zip(pop["sex"], pop["wstate"])], dtype=float)
        dead = self.rs.filter_for_probability(pop.index, p)
        self.population_view.update(pd.DataFrame({"tracked": False, "exit": float(tick(self.cfg, event.time))}, index=dead))


class WTransition(Transition):
    """probability w[sex] / 16, read through the transition's own view of the `sex` column"""

    def __init__(self, input_state, output_state, w):
        super().__init__(input_state, output_state, probability_func=self._p)
        self.w = list(w)
        self._nm = f"wtransition.{input_state.state_id}.{output_state.state_id}.{id(self)}"

    @property
    def name(self):
        return self._nm

    @property
    def columns_required(self):
        return ["sex"]

    def _p(self, index):
        sex = self.population_view.get(index)["sex"]
        return pd.Series([self.w[SEXES.index(s)] / 16.0 for s in sex], index=index, dtype=float)


class WDisease(Component):
    def __init__(self, cfg):
        super().__init__()
        self.cfg = cfg
        specs = cfg["states"]
        self.names = STATE_NAMES[: len(specs)]
        states = [State(n, allow_self_transition=bool(sp["selfOk"])) for n, sp in zip(self.names, specs)]
        for st, sp in zip(states, specs):
            for k, (out, w) in enumerate(sp["trans"]):
                t = WTransition(st, states[out], w)
                t._nm = f"wtransition.{st.state_id}.{k}"
                st.add_transition(t)
        self.machine = Machine("wstate", states)
        self._sub_components = [self.machine]

    @property
    def name(self):
        return "wdisease"

    @property
    def columns_created(self):
        return ["wstate"]

    @property
    def columns_required(self):
        return ["sex"]

    @property
    def initialization_requirements(self):
        return {"requires_columns": ["sex"], "requires_values": [], "requires_streams": ["wdis_init"]}

    def setup(self, builder):
        self.rs = builder.randomness.get_stream("wdis_init")
        builder.event.register_listener(PHASES[self.cfg["disPhase"]], self.act, priority=self.cfg["disPrio"])

    def on_initialize_simulants(self, pop_data):
        idx = pop_data.index
        if len(idx):
            sex = self.population_view.subview(["sex"]).get(idx)["sex"]
            p = np.array([[w / 16.0 for w in self.cfg["initW"][SEXES.index(s)]] for s in sex], dtype=float)
            st = self.rs.choice(idx, self.names, p=p)
        else:
            st = pd.Series([], dtype=object, index=idx)
        self.population_view.update(pd.Series(st, index=idx, name="wstate"))

    def act(self, event):
        self.machine.transition(event.index, event.time)


class WMod(Component):
    """one value modifier of the pipeline `wmort.p`, reading `sex` through its own view"""
    K = 0

    def __init__(self, cfg):
        super().__init__()
        self.cfg = cfg

    @property
    def name(self):
        return f"wmod{self.K}"

    @property
    def columns_required(self):
        return ["sex"]

    def setup(self, builder):
        pipe = self.cfg.get("pipe") or {}
        mods = pipe.get("mods") or []
        self.spec = mods[self.K] if self.K < len(mods) else {"kind": 0, "den": 1, "w": [1, 1]}
        self.union = pipe.get("mode") == 1
        builder.value.register_value_modifier(PIPE_NAME, self.contribute if self.union else self.modify, requires_columns=["sex"])

    def _w(self, index):
        sex = self.population_view.get(index)["sex"]
        sp = self.spec
        return pd.Series([sp["w"][SEXES.index(s)] / float(sp["den"]) for s in sex], index=index, dtype=float)

    def modify(self, index, value):
        w = self._w(index)
        kind = self.spec["kind"]
        if kind == 0:
            return value * w
        if kind == 1:
            return value + w
        return w

    def contribute(self, index):
        return self._w(index)


class WMod0(WMod):
    K = 0


class WMod1(WMod):
    K = 1


class WMod2(WMod):
    K = 2


def strat_categories(cfg, sp):
    return list(sp["cats"])


def _mapper(cfg, kind):
    if kind == 2:
        return lambda df: df["sex"] + "_" + df["wstate"]
    if kind == 3:
        return lambda df: df["tracked"].map({True: "yes", False: "no"})
    raise ValueError(kind)


class WObserver(Observer):
    """registers the configured stratifications and adding observations (`cfg["obs"]`)"""

    def __init__(self, cfg):
        super().__init__()
        self.cfg = cfg

    @property
    def name(self):
        return "w_observer"

    def register_observations(self, builder):
        ob = self.cfg.get("obs") or {}
        start, step = self.cfg["start"], self.cfg["step"]
        for sp in ob.get("strats", []):
            kind = sp["kind"]
            kw = dict(excluded_categories=list(sp["excl"]))
            if kind == 0:
                builder.results.register_stratification(sp["name"], list(sp["cats"]), requires_columns=["sex"], **kw)
            elif kind == 1:
                builder.results.register_stratification(sp["name"], list(sp["cats"]), requires_columns=["wstate"], **kw)
            elif kind == 2:
                builder.results.register_stratification(sp["name"], list(sp["cats"]), mapper=_mapper(self.cfg, 2), is_vectorized=True,
                                                        requires_columns=["sex", "wstate"], **kw)
            elif kind == 3:
                builder.results.register_stratification(sp["name"], list(sp["cats"]), mapper=_mapper(self.cfg, 3), is_vectorized=True,
                                                        requires_columns=["tracked"], **kw)
            else:
                builder.results.register_binned_stratification("age", sp["name"], [int(e) for e in sp["edges"]], list(sp["cats"]), **kw)
        for o in ob.get("observations", []):
            cols = set(FILTER_COLUMNS[o["filter"]])
            kw = dict(name=o["name"], pop_filter=FILTERS[o["filter"]], when=PHASES[o["when"]],
                      additional_stratifications=list(o["add"]), excluded_stratifications=list(o["exc"]))
            if o["agg"] == 1:
                kw.update(aggregator_sources=["entrance"], aggregator=lambda df: df["entrance"].sum())
                cols.add("entrance")
            elif o["agg"] == 2:
                kw.update(aggregator_sources=["age"], aggregator=lambda df: df["age"].sum())
                cols.add("age")
            if o["mod"] > 1:
                kw["to_observe"] = lambda event, m=o["mod"]: ((int(event.time) - start) // step) % m == 0
            builder.results.register_adding_observation(requires_columns=sorted(cols), **kw)


class WStep(Component):
    """step-size modifiers by disease state (`cfg["dt"]["mods"]`); the view includes `tracked`, so it is not filtered"""

    def __init__(self, cfg):
        super().__init__()
        self.cfg = cfg

    @property
    def name(self):
        return "wstep"

    @property
    def columns_required(self):
        return ["wstate", "tracked"]

    def setup(self, builder):
        for j in range(len(self.cfg["dt"]["mods"])):
            builder.time.register_step_size_modifier(lambda index, j=j: self.ask(j, index), requires_columns=["wstate"])

    def ask(self, j, index):
        spec = self.cfg["dt"]["mods"][j]
        st = self.population_view.get(index)["wstate"]
        vals = [spec[STATE_NAMES.index(w)] for w in st]
        return pd.Series([pd.NaT if v is None else pd.Timedelta(hours=v) for v in vals], index=index, dtype="timedelta64[ns]")


COMPONENTS = {0: WPop, 1: WMort, 2: WDisease, 3: WObserver, 4: WMod0, 5: WMod1, 6: WMod2, 7: WStep}

# contexts of OTHER simulations of this process, as [sim, cfg]: each takes one of its own steps in the MIDDLE of every
# step of a simulation that carries a `WProbe` (a module global on purpose: never part of a pickled context)
NEIGHBOURS = []


class WProbe(Component):
    """PASSIVE extra component of the process-history streams of C01 / C18 (`vcheck/whole_worker.py`); not part of
    `cfg["order"]`, never built by `build`. It creates no column, asks for no stream, pipeline or table and writes
    nothing, so the model's run is the run with or without it. In every one of the four time-step events it consumes
    (and every third time reseeds) the process-global numpy / `random` generators; at the start of a step it lets the
    neighbour simulations of the process (`NEIGHBOURS`) take a step, and – when `copy_from` is set – copies the file the
    engine's own `run(backup_path, backup_freq)` loop wrote after the previous step to `copy_to % boundary`."""

    def __init__(self, noise=0):
        super().__init__()
        self.noise = int(noise)
        self.looks = 0
        self.steps_started = 0
        self.copy_from = None
        self.copy_to = None

    @property
    def name(self):
        return "zz_wprobe"

    def setup(self, builder):
        for ph, name in enumerate(PHASES):
            builder.event.register_listener(name, self._prepare if ph == 0 else self._look, priority=0 if ph == 0 else 9)

    def _look(self, event):
        import random
        self.looks += 1
        np.random.random(self.noise % 7 + 1)
        random.random()
        if self.noise % 3 == 0:
            np.random.seed(self.noise % 1000 + self.looks)
            random.seed(self.looks)

    def _prepare(self, event):
        import os
        import shutil
        if self.copy_from and self.steps_started > 0 and os.path.exists(self.copy_from):
            shutil.copyfile(self.copy_from, self.copy_to % self.steps_started)
        self.steps_started += 1
        self._look(event)
        for nb in list(NEIGHBOURS):
            osim, ocfg = nb
            try:
                if tick(ocfg, osim.current_time) < ocfg["stop"]:
                    osim.step()
                    continue
            except Exception:  # noqa: BLE001 - a neighbour may be refused (duplicate keys, ...): its own business
                pass
            NEIGHBOURS.remove(nb)


def build(cfg):
    return [COMPONENTS[k](cfg) for k in cfg["order"]]


def configuration(cfg):
    rnd = {"map_size": cfg["mapSize"], "random_seed": cfg["seed"], "key_columns": [KEY_COLUMN_NAMES[k] for k in cfg["keyCols"]]}
    if cfg.get("addSeed") is not None:
        rnd["additional_seed"] = cfg["addSeed"]
    if cfg.get("dt"):
        time = {"start": {"year": 2021, "month": 1, "day": 1 + cfg["start"] // 24}, "end": {"year": 2021, "month": 1, "day": 1 + cfg["stop"] // 24},
                "step_size": cfg["step"] / 24.0, "standard_step_size": (cfg["dt"]["std"] / 24.0) if cfg["dt"].get("std") else None}
    else:
        time = {"start": cfg["start"], "end": cfg["stop"], "step_size": cfg["step"]}
    out = {"population": {"population_size": cfg["pop"]}, "randomness": rnd, "time": time}
    if cfg.get("obs") and cfg["obs"].get("defaults"):
        out["stratification"] = {"default": list(cfg["obs"]["defaults"])}
    return out


def plugins(cfg=None):
    clock = "DateTimeClock" if cfg and cfg.get("dt") else "SimpleClock"
    return {"required": {"clock": {"controller": "vivarium.framework.time." + clock,
                                   "builder_interface": "vivarium.framework.time.TimeInterface"}}}


def seed_string(cfg):
    """`RandomnessManager._seed`"""
    return str(cfg["seed"]) + (str(cfg["addSeed"]) if cfg.get("addSeed") is not None else "")


def canon_table(cfg, df):
    """the canonical table: one row [label, tracked, key numerator, entrance, sex, state, exit] per simulant
    (+ `age` as an eighth entry when `cfg["age"]` is set), integers only (key as floor(d * 2**B); exit None = NaN);
    None when the column holds something inexpressible"""
    B = cfg["keyBits"]
    rows = []
    for label, r in df.iterrows():
        key = r["key"]
        if pd.isna(key):
            kk = None
        else:
            kk = key * (2 ** B) if cfg["keyFloat"] else key
            kk = int(kk) if float(kk) == int(kk) else ["inexact", float(kk).hex()]
        ex = r["exit"]
        rows.append([int(label), int(bool(r["tracked"])) if not pd.isna(r["tracked"]) else None, kk,
                     None if pd.isna(r["entrance"]) else int(r["entrance"]),
                     SEXES.index(r["sex"]) if r["sex"] in SEXES else None,
                     STATE_NAMES.index(r["wstate"]) if r["wstate"] in STATE_NAMES else None,
                     None if pd.isna(ex) else (int(ex) if float(ex) == int(ex) else ["inexact", float(ex).hex()])])
        if cfg.get("age"):
            a = r["age"] if "age" in df.columns else None
            rows[-1].append(None if a is None or pd.isna(a) else int(a))
    return rows


def obs_strat_names(cfg, o):
    """`ResultsManager._get_stratifications`: sorted(set(default + additional) - set(excluded))"""
    ob = cfg.get("obs") or {}
    return sorted((set(ob.get("defaults", [])) | set(o["add"])) - set(o["exc"]))


def canon_results(cfg, sim):
    """`sim.get_results()` -> {observation name: [[category per stratification (sorted names)..., value numerator,
    value denominator], ...]} in the product order of the non-excluded categories as registered; problems as strings"""
    ob = cfg.get("obs")
    if not ob or 3 not in cfg["order"]:
        return None
    import itertools
    res = sim.get_results()
    out = {}
    by_name = {sp["name"]: sp for sp in ob.get("strats", [])}
    for o in ob.get("observations", []):
        df = res.get(o["name"])
        if df is None:
            out[o["name"]] = "missing"
            continue
        names = obs_strat_names(cfg, o)
        levels = [[c for c in by_name[n]["cats"] if c not in by_name[n]["excl"]] for n in names]
        cols = [str(c) for c in df.columns]
        want_cols = set(names or ["stratification"]) | {"value"}
        if set(cols) != want_cols or len(cols) != len(want_cols):
            out[o["name"]] = f"columns {sorted(cols)}"
            continue
        tab = {}
        bad = None
        for rec in df.to_dict("records"):
            k = tuple(str(rec[n]) for n in names) if names else ("all",)
            if k in tab:
                bad = f"duplicate row {k}"
            v = rec["value"]
            tab[k] = None if pd.isna(v) else list(float(v).as_integer_ratio())
        keys = list(itertools.product(*levels)) if names else [("all",)]
        if bad or set(tab) != set(keys):
            out[o["name"]] = bad or f"rows {sorted(tab)}"
            continue
        out[o["name"]] = [list(k) + (tab[k] if tab[k] is not None else [None, None]) for k in keys]
    return out


def classify(e):
    from vivarium.framework.randomness.exceptions import RandomnessError
    if isinstance(e, RandomnessError):
        return "randomness"
    if isinstance(e, IndexError):
        return "lookup"
    if isinstance(e, (ValueError, FloatingPointError)):
        return "value"
    if isinstance(e, KeyError):
        return "key"
    if isinstance(e, NotImplementedError):
        return "unsupported"
    return "other:" + type(e).__name__


def make_context(cfg, cls=None, extra=(), clear_cache=True):
    """the context of `cfg`. Optional (the defaults are the WHOLE check's own use): `cls` = the context class
    (`InteractiveContext` is created with `setup=False`), `extra` = further component instances appended after the
    kit's (the passive `WProbe`), `clear_cache=False` keeps the registry of context names of the process as it is"""
    if clear_cache:
        SimulationContext._clear_context_cache()
    comps = build(cfg)
    kw = {}
    if cls is not None and cls is not SimulationContext:
        kw["setup"] = False
    sim = (cls or SimulationContext)(None, comps + list(extra), configuration(cfg), plugins(cfg), logging_verbosity=0, **kw)
    sim._wk_components = comps          # the kit's own handle on its probe components (read-only use: logs)
    return sim


def positions(sim, labels):
    """index-map positions of the given labels (None when unavailable)"""
    try:
        im = sim._randomness._key_mapping
        if not len(labels):
            return []
        return [int(x) for x in im[pd.Index(labels)]]
    except Exception:  # noqa: BLE001
        return None


def collisions(sim, cfg=None):
    """number of registered simulants whose position is not the first hash of their key (real `_hash` with the creation
    clock as salt): 0 = no collision had to be resolved; None = no CRN / not computable"""
    try:
        im = sim._randomness._key_mapping
        if not im._use_crn or im._map is None:
            return None
        m = im._map
        pop = sim.get_population(True)
        n = 0
        for t in sorted(set(int(x) for x in pop["entrance"])):
            labels = [int(l) for l in pop.index[pop["entrance"] == t]]
            sub = m[m.index.get_level_values(im.SIM_INDEX_COLUMN).isin(labels)]
            first = im._hash(sub.index.droplevel(im.SIM_INDEX_COLUMN), salt=(EPOCH + pd.Timedelta(hours=t)) if cfg and cfg.get("dt") else t)
            n += int((first.to_numpy() != sub.to_numpy()).sum())
        return n
    except Exception:  # noqa: BLE001
        return None


def first_hashes(sim, cfg=None):
    """[label, position, first hash (real `_hash` of the key with the creation clock as salt), entrance] per registered
    simulant; None without CRN / when not computable"""
    try:
        im = sim._randomness._key_mapping
        if not im._use_crn or im._map is None:
            return None
        m = im._map
        pop = sim.get_population(True)
        out = []
        for t in sorted(set(int(x) for x in pop["entrance"])):
            labels = [int(l) for l in pop.index[pop["entrance"] == t]]
            sub = m[m.index.get_level_values(im.SIM_INDEX_COLUMN).isin(labels)]
            first = im._hash(sub.index.droplevel(im.SIM_INDEX_COLUMN), salt=(EPOCH + pd.Timedelta(hours=t)) if cfg and cfg.get("dt") else t)
            for lab, p, f in zip(sub.index.get_level_values(im.SIM_INDEX_COLUMN), sub.to_numpy(), first.to_numpy()):
                out.append([int(lab), int(p), int(f), t])
        return sorted(out)
    except Exception:  # noqa: BLE001
        return None


ENGINE_MODES = ["step", "run", "init", "run_backup"]
INTERACTIVE_MODES = ["interactive_step", "interactive_take", "interactive_run"]


def _new_out(mode):
    return {"init": None, "steps": [], "clocks": [], "error": None, "positions": None, "positions_by_stage": [], "size": None,
            "mode": mode, "collisions": None, "first_hashes": None, "results": [], "pvals": [], "clk": []}


def _record(cfg, sim, out):
    """after a completed stage: the running results and the last value the mortality pipeline returned"""
    try:
        out["results"].append(canon_results(cfg, sim))
    except Exception as e:  # noqa: BLE001
        out["results"].append({"_error": f"{type(e).__name__}: {e}"[:200]})
    if cfg.get("dt"):
        try:
            pop = sim.get_population(True)
            out["clk"].append([tick(cfg, sim._clock.step_size + EPOCH)] +
                              [[int(l), tick(cfg, r["next_event_time"]), tick(cfg, r["step_size"] + EPOCH)] for l, r in pop.iterrows()])
        except Exception as e:  # noqa: BLE001
            out["clk"].append(["error", f"{type(e).__name__}: {e}"[:200]])
    try:
        m = [c for c in getattr(sim, "_wk_components", []) if isinstance(c, WMort)]
        out["pvals"].append(getattr(m[0], "plog", None) if m else None)
    except Exception as e:  # noqa: BLE001
        out["pvals"].append(["error", f"{type(e).__name__}: {e}"[:200]])


def _stage(cfg, sim, out, init=False):
    """the canonical table, the clock, the index-map positions, results / pipeline log / clocks of the stage just completed"""
    pop = sim.get_population(True)
    if init:
        out["init"] = canon_table(cfg, pop)
    else:
        out["steps"].append(canon_table(cfg, pop))
    out["clocks"].append(tick(cfg, sim.current_time))
    out["positions_by_stage"].append(positions(sim, list(pop.index)))
    _record(cfg, sim, out)


def _err(at, e):
    return {"at": at, "class": classify(e), "msg": f"{type(e).__name__}: {e}"[:300]}


def _drive(cfg, sim, out, mode, done=0, hook=None, backup_path=None):
    """from a context whose first `done` steps are taken to the configured end (the part of `run` after the initial
    population); stage numbers / error positions are ABSOLUTE step numbers"""
    n = cfg["nSteps"]
    if mode in ("run", "interactive_run", "run_backup"):
        try:
            if mode == "run_backup":
                SimulationContext.run(sim, backup_path=backup_path, backup_freq=1e-9)
            elif mode == "interactive_run":
                sim.run(with_logging=False)
            else:
                sim.run()
        except Exception as e:  # noqa: BLE001
            out["error"] = _err("run", e)
            return out
        _stage(cfg, sim, out)
        if hook:
            hook("end", sim, out)
    else:
        for k in range(done, n):
            if cfg.get("dt") and tick(cfg, sim.current_time) >= cfg["stop"]:
                break                                   # per-simulant clocks: the number of steps is not known in advance
            try:
                if mode == "interactive_take":
                    sim.take_steps(1, with_logging=False)
                else:
                    sim.step()
            except Exception as e:  # noqa: BLE001
                out["error"] = _err(k, e)
                break
            _stage(cfg, sim, out)
            if hook:
                hook(k + 1, sim, out)
    if out["error"] is None:
        out["positions"] = out["positions_by_stage"][-1]
        out["collisions"] = collisions(sim, cfg)
        out["first_hashes"] = first_hashes(sim, cfg) if mode == "step" else None
        try:
            sim.finalize()
        except Exception as e:  # noqa: BLE001
            if len(out["steps"]) > 0 and mode in ("step", "interactive_step", "interactive_take") and n > 0:
                out["error"] = _err("finalize", e)
    return out


def run(cfg, mode="step", hook=None, extra=(), clear_cache=True, backup_path=None):
    """Run the real engine on the kit. mode "step": explicit step() calls, table after every step;
    mode "run": SimulationContext.run() (the `while clock < stop` loop), final table only; mode "init": the initial
    population only.
    Returns {"init": table | None, "steps": [table...], "clocks": [...], "error": None | {"at": k, "class": c, "msg": m},
             "positions_by_stage": [...], "positions": after the last completed stage, "size": block size, "collisions": n}

    Optional (process-history streams of C01 / C18, `vcheck/whole_worker.py`; the defaults are the WHOLE check's own use):
    further modes "interactive_step" / "interactive_take" (an `InteractiveContext` driven by `step()` / `take_steps(1)`,
    table after every step), "interactive_run" (`InteractiveContext.run()`, final table only), "run_backup" (the engine's
    `run(backup_path, backup_freq)` loop, final table only); `hook(stage, sim, out)` is called after the context was
    created ("created"), after setup ("setup"; engine contexts), after the initial population (0), after every recorded
    step (k + 1) and after a run-like drive ("end"); `extra`, `clear_cache`: see `make_context`."""
    out = _new_out(mode)
    interactive = mode in INTERACTIVE_MODES
    sim = make_context(cfg, InteractiveContext if interactive else None, extra, clear_cache)
    if hook:
        hook("created", sim, out)
    if interactive:
        # InteractiveContext.setup() = setup + initialize_simulants: the stage that raised is read off the lifecycle
        try:
            sim.setup()
        except Exception as e:  # noqa: BLE001
            early = sim._lifecycle.current_state in ("initialization", "setup", "post_setup")
            if not early and out["size"] is None:
                try:
                    out["size"] = len(sim._randomness._key_mapping)
                except Exception:  # noqa: BLE001
                    pass
            out["error"] = _err("setup" if early else "init", e)
            return out
        out["size"] = len(sim._randomness._key_mapping)
    else:
        try:
            sim.setup()
        except Exception as e:  # noqa: BLE001
            out["error"] = _err("setup", e)
            return out
        out["size"] = len(sim._randomness._key_mapping)
        if hook:
            hook("setup", sim, out)
        try:
            sim.initialize_simulants()
        except Exception as e:  # noqa: BLE001
            out["error"] = _err("init", e)
            return out
    _stage(cfg, sim, out, init=True)
    if hook:
        hook(0, sim, out)
    if mode == "init":
        return out
    return _drive(cfg, sim, out, mode, 0, hook, backup_path)


def resume(cfg, sim, done, mode="step", hook=None):
    """continue a RESTORED context (`dill.load` of a backup written after `done` steps) to the configured end. The
    stage found after the restore is recorded as `init` (it must be the table after step `done`), the later ones as
    `steps`; error positions are absolute step numbers. mode "step" / "run" (engine or interactive context alike:
    `step()` loop / the context's own `run`)."""
    out = _new_out(mode)
    out["at"] = done
    out["ctx"] = type(sim).__name__
    try:
        out["size"] = len(sim._randomness._key_mapping)
        _stage(cfg, sim, out, init=True)
    except Exception as e:  # noqa: BLE001
        out["error"] = _err("restore", e)
        return out
    if hook:
        hook(done, sim, out)
    inter = isinstance(sim, InteractiveContext)
    m = {"step": "interactive_step" if inter else "step", "take": "interactive_take" if inter else "step",
         "run": "interactive_run" if inter else "run"}[mode]
    return _drive(cfg, sim, out, m, done, hook)
