"""Probe components + runner for the END-TO-END check WHOLE (lean/VivModel/Model/Whole.lean).

Every computation a component does here is EXACT (no float rounding anywhere), so that the Lean model can
reproduce the complete state table after every time step from the configuration alone:

* `WPop`      columns `key`, `entrance`, `sex`.
              `key`      = floor(d * 2**B) (int64 column) or floor(d * 2**B) / 2**B (float64 column, B <= 20) where d is
                           the POSITIONAL draw of the CRN-initialising stream `wpop_crn` (additional key `key`, or
                           `key<phase>` per creation site); multiplying by a power of two and floor are exact.
              `entrance` = SimulantData.creation_time (an int: SimpleClock with integer start / step).
              then `register_simulants(df[key_columns])` (when key columns are configured), then
              `sex`      = stream `wpop_sex`.choice(index, ["m", "f"], p=[a/16, (16-a)/16], additional_key="sex").
              Births: a listener on each of the four time-step channels (own priority per channel) calls the real
              simulant creator with `births[step][phase]` (step = (clock - start) // step_size: a function of the clock,
              no counter of its own).
* `WMort`     column `exit` (float, NaN = not left). A listener on one configured channel: the TRACKED simulants of
              `event.index` are filtered with the real `filter_for_probability(index, p)` (stream `wmort`, additional key
              None) where p[i] = mortP[sex][state] / 16; those kept are untracked and get `exit = event.time`.
* `WDisease`  column `wstate`; initial state = stream `wdis_init`.choice(index, states, p = one row per simulant
              initW[sex] / 16). A listener on one configured channel calls the real `Machine.transition(event.index,
              event.time)`; the machine's transitions have probability w[sex] / 16 (a `Transition` sub-class reading the
              `sex` column through its own population view). Weights are sixteenths: every division the framework does
              (by 1, or by a power-of-two total where the generator allows no null transition) is exact.

case (JSON): see `vcheck/props/whole.py::Whole.generate`.
"""
from __future__ import annotations

from . import impl

impl.load()

import numpy as np  # noqa: E402
import pandas as pd  # noqa: E402
from vivarium import Component  # noqa: E402
from vivarium.framework.engine import SimulationContext  # noqa: E402
from vivarium.framework.state_machine import Machine, State, Transition  # noqa: E402

PHASES = ["time_step__prepare", "time_step", "time_step__cleanup", "collect_metrics"]
SEXES = ["m", "f"]
STATE_NAMES = ["s0", "s1", "s2", "s3"]
KEY_COLUMN_NAMES = ["entrance", "key"]


def step_number(cfg, clock):
    return (int(clock) - cfg["start"]) // cfg["step"]


class WPop(Component):
    def __init__(self, cfg):
        super().__init__()
        self.cfg = cfg

    @property
    def name(self):
        return "wpop"

    @property
    def columns_created(self):
        return ["key", "entrance", "sex"]

    def setup(self, builder):
        self.clock = builder.time.clock()
        self.creator = builder.population.get_simulant_creator()
        self.crn = builder.randomness.get_stream("wpop_crn", initializes_crn_attributes=True)
        self.rs = builder.randomness.get_stream("wpop_sex")
        self.register = builder.randomness.register_simulants
        self.keys = [KEY_COLUMN_NAMES[k] for k in self.cfg["keyCols"]]
        self.site = "init"
        for ph, name in enumerate(PHASES):
            builder.event.register_listener(name, getattr(self, f"births{ph}"), priority=self.cfg["birthPrio"][ph])

    def on_initialize_simulants(self, pop_data):
        cfg = self.cfg
        idx = pop_data.index
        n = len(idx)
        B = cfg["keyBits"]
        ak = "key" + (self.site if cfg["akPerPhase"] else "")
        if n:
            d = self.crn.get_draw(idx, ak)
            k = np.floor(d * float(2 ** B))
            key = (k / float(2 ** B)) if cfg["keyFloat"] else k.astype("int64")
        else:
            key = pd.Series([], dtype=float if cfg["keyFloat"] else "int64", index=idx)
        df = pd.DataFrame({"key": key, "entrance": pd.Series(pop_data.creation_time, index=idx, dtype="int64")}, index=idx)
        if self.keys:
            self.register(df[self.keys])
        if n:
            a = cfg["sexW"]
            df["sex"] = self.rs.choice(idx, SEXES, p=[a / 16.0, (16 - a) / 16.0], additional_key="sex")
        else:
            df["sex"] = pd.Series([], dtype=object, index=idx)
        self.population_view.update(df)

    def births0(self, event):
        self.births(0)

    def births1(self, event):
        self.births(1)

    def births2(self, event):
        self.births(2)

    def births3(self, event):
        self.births(3)

    def births(self, phase):
        sched = self.cfg["births"]
        s = step_number(self.cfg, self.clock())
        if 0 <= s < len(sched):
            self.site = str(phase)
            try:
                self.creator(sched[s][phase], {"sim_state": "time_step"})
            finally:
                self.site = "init"


class WMort(Component):
    def __init__(self, cfg):
        super().__init__()
        self.cfg = cfg

    @property
    def name(self):
        return "wmort"

    @property
    def columns_created(self):
        return ["exit"]

    @property
    def columns_required(self):
        return ["tracked", "sex", "wstate"]

    def setup(self, builder):
        self.rs = builder.randomness.get_stream("wmort")
        builder.event.register_listener(PHASES[self.cfg["mortPhase"]], self.act, priority=self.cfg["mortPrio"])

    def on_initialize_simulants(self, pop_data):
        self.population_view.update(pd.Series(np.nan, index=pop_data.index, name="exit", dtype=float))

    def act(self, event):
        pop = self.population_view.get(event.index, query="tracked == True")
        table = self.cfg["mortP"]
        p = np.array([table[SEXES.index(s)][STATE_NAMES.index(w)] / 16.0 for s, w in zip(pop["sex"], pop["wstate"])], dtype=float)
        dead = self.rs.filter_for_probability(pop.index, p)
        self.population_view.update(pd.DataFrame({"tracked": False, "exit": float(event.time)}, index=dead))


class WTransition(Transition):
    """probability w[sex] / 16, read through the transition's own view of the `sex` column"""

    def __init__(self, input_state, output_state, w):
        super().__init__(input_state, output_state, probability_func=self._p)
        self.w = list(w)
        self._nm = f"wtransition.{input_state.state_id}.{output_state.state_id}.{id(self)}"

    @property
    def name(self):
        return self._nm

    @property
    def columns_required(self):
        return ["sex"]

    def _p(self, index):
        sex = self.population_view.get(index)["sex"]
        return pd.Series([self.w[SEXES.index(s)] / 16.0 for s in sex], index=index, dtype=float)


class WDisease(Component):
    def __init__(self, cfg):
        super().__init__()
        self.cfg = cfg
        specs = cfg["states"]
        self.names = STATE_NAMES[: len(specs)]
        states = [State(n, allow_self_transition=bool(sp["selfOk"])) for n, sp in zip(self.names, specs)]
        for st, sp in zip(states, specs):
            for k, (out, w) in enumerate(sp["trans"]):
                t = WTransition(st, states[out], w)
                t._nm = f"wtransition.{st.state_id}.{k}"
                st.add_transition(t)
        self.machine = Machine("wstate", states)
        self._sub_components = [self.machine]

    @property
    def name(self):
        return "wdisease"

    @property
    def columns_created(self):
        return ["wstate"]

    @property
    def columns_required(self):
        return ["sex"]

    @property
    def initialization_requirements(self):
        return {"requires_columns": ["sex"], "requires_values": [], "requires_streams": ["wdis_init"]}

    def setup(self, builder):
        self.rs = builder.randomness.get_stream("wdis_init")
        builder.event.register_listener(PHASES[self.cfg["disPhase"]], self.act, priority=self.cfg["disPrio"])

    def on_initialize_simulants(self, pop_data):
        idx = pop_data.index
        if len(idx):
            sex = self.population_view.subview(["sex"]).get(idx)["sex"]
            p = np.array([[w / 16.0 for w in self.cfg["initW"][SEXES.index(s)]] for s in sex], dtype=float)
            st = self.rs.choice(idx, self.names, p=p)
        else:
            st = pd.Series([], dtype=object, index=idx)
        self.population_view.update(pd.Series(st, index=idx, name="wstate"))

    def act(self, event):
        self.machine.transition(event.index, event.time)


COMPONENTS = {0: WPop, 1: WMort, 2: WDisease}


def build(cfg):
    return [COMPONENTS[k](cfg) for k in cfg["order"]]


def configuration(cfg):
    rnd = {"map_size": cfg["mapSize"], "random_seed": cfg["seed"], "key_columns": [KEY_COLUMN_NAMES[k] for k in cfg["keyCols"]]}
    if cfg.get("addSeed") is not None:
        rnd["additional_seed"] = cfg["addSeed"]
    return {"population": {"population_size": cfg["pop"]}, "randomness": rnd,
            "time": {"start": cfg["start"], "end": cfg["stop"], "step_size": cfg["step"]}}


def plugins():
    return {"required": {"clock": {"controller": "vivarium.framework.time.SimpleClock",
                                   "builder_interface": "vivarium.framework.time.TimeInterface"}}}


def seed_string(cfg):
    """`RandomnessManager._seed`"""
    return str(cfg["seed"]) + (str(cfg["addSeed"]) if cfg.get("addSeed") is not None else "")


def canon_table(cfg, df):
    """the canonical table: one row [label, tracked, key numerator, entrance, sex, state, exit] per simulant,
    integers only (key as floor(d * 2**B); exit None = NaN); None when the column holds something inexpressible"""
    B = cfg["keyBits"]
    rows = []
    for label, r in df.iterrows():
        key = r["key"]
        if pd.isna(key):
            kk = None
        else:
            kk = key * (2 ** B) if cfg["keyFloat"] else key
            kk = int(kk) if float(kk) == int(kk) else ["inexact", float(kk).hex()]
        ex = r["exit"]
        rows.append([int(label), int(bool(r["tracked"])) if not pd.isna(r["tracked"]) else None, kk,
                     None if pd.isna(r["entrance"]) else int(r["entrance"]),
                     SEXES.index(r["sex"]) if r["sex"] in SEXES else None,
                     STATE_NAMES.index(r["wstate"]) if r["wstate"] in STATE_NAMES else None,
                     None if pd.isna(ex) else (int(ex) if float(ex) == int(ex) else ["inexact", float(ex).hex()])])
    return rows


def classify(e):
    from vivarium.framework.randomness.exceptions import RandomnessError
    if isinstance(e, RandomnessError):
        return "randomness"
    if isinstance(e, IndexError):
        return "lookup"
    if isinstance(e, (ValueError, FloatingPointError)):
        return "value"
    return "other:" + type(e).__name__


def make_context(cfg):
    SimulationContext._clear_context_cache()
    return SimulationContext(None, build(cfg), configuration(cfg), plugins(), logging_verbosity=0)


def positions(sim, labels):
    """index-map positions of the given labels (None when unavailable)"""
    try:
        im = sim._randomness._key_mapping
        if not len(labels):
            return []
        return [int(x) for x in im[pd.Index(labels)]]
    except Exception:  # noqa: BLE001
        return None


def collisions(sim):
    """number of registered simulants whose position is not the first hash of their key (real `_hash` with the creation
    clock as salt): 0 = no collision had to be resolved; None = no CRN / not computable"""
    try:
        im = sim._randomness._key_mapping
        if not im._use_crn or im._map is None:
            return None
        m = im._map
        pop = sim.get_population(True)
        n = 0
        for t in sorted(set(int(x) for x in pop["entrance"])):
            labels = [int(l) for l in pop.index[pop["entrance"] == t]]
            sub = m[m.index.get_level_values(im.SIM_INDEX_COLUMN).isin(labels)]
            first = im._hash(sub.index.droplevel(im.SIM_INDEX_COLUMN), salt=t)
            n += int((first.to_numpy() != sub.to_numpy()).sum())
        return n
    except Exception:  # noqa: BLE001
        return None


def first_hashes(sim):
    """[label, position, first hash (real `_hash` of the key with the creation clock as salt), entrance] per registered
    simulant; None without CRN / when not computable"""
    try:
        im = sim._randomness._key_mapping
        if not im._use_crn or im._map is None:
            return None
        m = im._map
        pop = sim.get_population(True)
        out = []
        for t in sorted(set(int(x) for x in pop["entrance"])):
            labels = [int(l) for l in pop.index[pop["entrance"] == t]]
            sub = m[m.index.get_level_values(im.SIM_INDEX_COLUMN).isin(labels)]
            first = im._hash(sub.index.droplevel(im.SIM_INDEX_COLUMN), salt=t)
            for lab, p, f in zip(sub.index.get_level_values(im.SIM_INDEX_COLUMN), sub.to_numpy(), first.to_numpy()):
                out.append([int(lab), int(p), int(f), t])
        return sorted(out)
    except Exception:  # noqa: BLE001
        return None


def run(cfg, mode="step"):
    """Run the real engine on the kit. mode "step": explicit step() calls, table after every step;
    mode "run": SimulationContext.run() (the `while clock < stop` loop), final table only; mode "init": the initial
    population only.
    Returns {"init": table | None, "steps": [table...], "clocks": [...], "error": None | {"at": k, "class": c, "msg": m},
             "positions_by_stage": [...], "positions": after the last completed stage, "size": block size, "collisions": n}"""
    out = {"init": None, "steps": [], "clocks": [], "error": None, "positions": None, "positions_by_stage": [], "size": None,
           "mode": mode, "collisions": None, "first_hashes": None}
    sim = make_context(cfg)
    try:
        sim.setup()
    except Exception as e:  # noqa: BLE001
        out["error"] = {"at": "setup", "class": classify(e), "msg": f"{type(e).__name__}: {e}"[:300]}
        return out
    out["size"] = len(sim._randomness._key_mapping)
    try:
        sim.initialize_simulants()
    except Exception as e:  # noqa: BLE001
        out["error"] = {"at": "init", "class": classify(e), "msg": f"{type(e).__name__}: {e}"[:300]}
        return out
    pop = sim.get_population(True)
    out["init"] = canon_table(cfg, pop)
    out["clocks"].append(int(sim.current_time))
    out["positions_by_stage"].append(positions(sim, list(pop.index)))
    if mode == "init":
        return out
    n = cfg["nSteps"]
    if mode == "run":
        try:
            sim.run()
        except Exception as e:  # noqa: BLE001
            out["error"] = {"at": "run", "class": classify(e), "msg": f"{type(e).__name__}: {e}"[:300]}
            return out
        pop = sim.get_population(True)
        out["steps"].append(canon_table(cfg, pop))
        out["clocks"].append(int(sim.current_time))
        out["positions_by_stage"].append(positions(sim, list(pop.index)))
    else:
        for k in range(n):
            try:
                sim.step()
            except Exception as e:  # noqa: BLE001
                out["error"] = {"at": k, "class": classify(e), "msg": f"{type(e).__name__}: {e}"[:300]}
                break
            pop = sim.get_population(True)
            out["steps"].append(canon_table(cfg, pop))
            out["clocks"].append(int(sim.current_time))
            out["positions_by_stage"].append(positions(sim, list(pop.index)))
    if out["error"] is None:
        out["positions"] = out["positions_by_stage"][-1]
        out["collisions"] = collisions(sim)
        out["first_hashes"] = first_hashes(sim) if mode == "step" else None
        try:
            sim.finalize()
        except Exception as e:  # noqa: BLE001
            if len(out["steps"]) > 0 and mode == "step" and n > 0:
                out["error"] = {"at": "finalize", "class": classify(e), "msg": f"{type(e).__name__}: {e}"[:300]}
    return out
